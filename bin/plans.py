# Per-property check plans: which design specs TLC model-checks, which harness families produce traces,
# which trace specs judge them, and how a rejected event is given a finding signature.
import json
import os

import checklib as L


def sig_default(ev):
    """Finding signature of a rejected event: a specific call site / input class, never "any failure"."""
    k = ev.get("k")
    if k == "panic":
        if ev.get("origin"):      # raised inside a third-party package, reached through the orb function `site`
            return "panic:%s@%s<-%s" % (ev.get("fn"), ev.get("site"), ev.get("origin"))
        return "panic:%s@%s" % (ev.get("fn"), ev.get("site"))
    if k in ("timeout", "offlattice"):
        return "%s:%s" % (k, ev.get("fn"))
    return "wrong:%s" % (ev.get("fn") or k)


def harness_died(ctx, plan, e):
    # The harness process died in a way recover() cannot catch (fatal error, stack exhaustion, OOM).
    # Verdicts need a reproducible real-code failure: re-run once; the same death twice is a violation.
    path = os.path.join(L.VERIF, "replay", "%s-crash.json" % ctx.pid)
    os.makedirs(os.path.dirname(path), exist_ok=True)
    with open(path, "w") as f:
        json.dump({"property": ctx.pid, "tier": ctx.tier, "seed": ctx.seed, "family": e.family, "rc": e.rc,
                   "stderr": e.stderr[-4000:]}, f, indent=1)
    if "fatal error" in e.stderr or "goroutine stack exceeds" in e.stderr or "DATA RACE" in e.stderr:
        print("VIOLATION property=%s replay=%s signature=crash:%s" % (ctx.pid, path, e.family))
        return 1
    print("ERROR %s: harness %s exited %s: %s" % (ctx.pid, e.family, e.rc, e.stderr[-1500:]))
    return 2


PLANS = {}
HOOK_COMMITS = ["d035787"]  # quadtree/verif_walk.go (new file, //go:build verif)
NOT_BUILT = {}

# ---- C09 -------------------------------------------------------------------------------------------


def run_c09(ctx):
    ctx.mc("ContainsMC", "ContainsMC_%s.cfg" % ctx.tier,
           note="ray-cast transcription = exact even-odd predicate; rotation/reversal/closing invariance")
    shards = ctx.gen("contains")
    ctx.validate("Contains_Trace", shards)
    ctx.exhaustive = True
    ctx.notes.append("exhaustive part: every 3-vertex ring (and, thorough, every 4-vertex ring) of the 4x4 grid x 49 half-step points")


PLANS["C09"] = dict(
    run=run_c09, signature=sig_default,
    technique="TLA+ spec of exact even-odd containment; TLC model-checks the ray-cast design against it and validates traces of the real planar.*Contains calls",
    level_text="TLC exhaustively checks that the ray-cast transcription of rayIntersect/RingContains equals the exact even-odd-with-boundary predicate on every ring of <=3 (quick) / <=4 (thorough) vertices of a 4x4 grid against the 49-point half-step lattice, and judges every answer the real code gives on those domains plus seeded rings to 12 vertices, polygons with holes and multipolygons, all rotations/reversals/closings, against the exact predicate. Every configuration is also translated as a whole by offsets up to 2^40 (exact in float64): the answers must not change. Six events out of eight carve their rings from one long-lived array refilled in place. Rings with vertices on the integer grid 0..16 are queried exactly on their slanted edges (every lattice point and midpoint of each edge) and half a step beside; holes may be arealess (a symmetric bow-tie, a ring folded onto a line). Triangles on the 16-grid are queried 2^-40 above and below their slanted edges. The whole configuration is also handed over in units of 2^-1000 .. 2^900 (an exact scaling: products of two coordinates leave the float64 range, the coordinates do not). Seeded rings also have 1, 2, 15..17, 31..33, 63..65, 127..129 and 200 vertices.",
    level_note="Exact only on small dyadic lattices (multiples of 1/4 below 8) where the float slope comparison is exact; general-position floats are not covered. Trusted: TLC, the Json module, the int/4 -> float64 projection in the harness.",
    rule="one event = one ring/polygon/multipolygon with the answers of the real containment function for every "
         "query point of a lattice; non-trivial = the answers are not all equal (the lattice straddles the boundary); "
         "distinct = distinct event text",
    assumptions=["coordinates are multiples of 1/4 below 8, for which the float64 slope comparison in rayIntersect is exact",
                 "TLC evaluates Exact2D!InRingEO in exact integer arithmetic"],
    trusted_base=["TLC 2026.09.04", "CommunityModules Json/IOUtils", "harness projection int/4 -> float64 (exact)"],
)

# ---- C07 -------------------------------------------------------------------------------------------


def run_c07(ctx):
    ctx.mc("ClipLineMC", "ClipLineMC_%s.cfg" % ctx.tier,
           note="Cohen-Sutherland transcription refines segment/\\box maximal chains; in-box, on-input, idempotence, inside-as-is")
    shards = ctx.gen("clipline")
    ctx.validate("ClipLine_Trace", shards)
    ctx.exhaustive = True
    ctx.notes.append("exhaustive part: every path of <=3 vertices on the 5x5 grid x 9 boxes x {closed, open} (quick); "
                     "7x7 grid x 100 boxes for <=2 vertices and a seeded sixth of the boxes for 3 vertices (thorough)")


PLANS["C07"] = dict(
    run=run_c07, signature=sig_default,
    technique="TLA+ spec of 'segment /\\ closed box, maximal chains' (exact lattice arithmetic); TLC model-checks the Cohen-Sutherland design against it and validates traces of the real clip.LineString/MultiLineString/Geometry calls",
    level_text="TLC exhaustively checks that the transcription of clip.line() refines the declarative specification (pieces = maximal chains of per-segment box parts, open option = closure of the strictly-inside part) for every box and every path of <=3 vertices on a 5x5 (quick) / 7x7 (thorough) grid, and judges every output of the real code on those domains plus seeded 12-vertex paths on a 9x9 grid (repeats, runs along edges, corner crossings), re-clipped pieces, the multi-line and generic entry points, and input immutability. The same enumeration runs on coordinates that are not exact in binary (multiples of one tenth; a segment through a corner meets the two sides a rounding error apart: this found the non-terminating corner crossing fixed in 9541a6b). Option lists are applied in order (the last decides). Seeded lines of 34..120 vertices have runs of 30..36 vertices beside the box, entered from and left into it. Every call sees the figure at its own size or scaled exactly by 2^30, 2^-20 or 2^44. Every eighth short line with coordinates exact in binary is clipped once more with each segment cut into 128..1024 parts (thousands of vertices, the original ones at multiples of 128..1024, optionally shifted by a repeated first vertex): the pieces must be the same once collinear vertices are taken out. The generic entry point also gets the line as a member of a collection behind a bound and in front of a point, and runs on the grid of tenths.",
    level_note="Inputs live on integer grids; outputs are projected to the 1/60 (1/840) lattice on which every crossing is exact, residual > 1e-7 lattice units is an 'offlattice' event the spec rejects. Consecutive duplicate vertices and zero-length touch pieces are normalised away (the statement allows them). General-position floats are not covered. Trusted: TLC, Json module, the lattice projection.",
    rule="one event = one real clip call (box, input paths, option, output pieces); non-trivial = output non-empty and different from the input (the box cut something); distinct = distinct event text",
    assumptions=["every crossing of an input segment with a box line is a lattice point (asserted by the trace spec per event)",
                 "float64 interpolation error on these lattices is < 1e-7 lattice units (residual checked per vertex)"],
    trusted_base=["TLC 2026.09.04", "CommunityModules Json/IOUtils", "harness lattice projection (quant)"],
)

# ---- C08 -------------------------------------------------------------------------------------------


def run_c08(ctx):
    ctx.mc("ClipRingMC", "ClipRingMC_%s.cfg" % ctx.tier,
           note="Sutherland-Hodgman transcription satisfies the region predicate, in-box, closure, inside-unchanged, disjoint-nothing, split additivity")
    shards = ctx.gen("clipring")
    ctx.validate("ClipRing_Trace", shards)
    # mvt Layer.Clip / Layers.Clip: clip every feature, drop the emptied ones, compacting the slice in place
    ctx.mc("MvtLayerMC", "MvtLayerMC.cfg", workers=4,
           note="in-place compaction loop = filter-map for every layer of <=5 features x result vectors; write index never overtakes read index")
    ctx.mc_expect_violation("MvtLayerMC", "MvtLayerMC_splice.cfg", "SpliceFinal", workers=1,
                            note="non-vacuity: the remove-while-iterating loop that skips the feature after a dropped one violates the same invariant")
    cases = ctx.tlcgen("MvtLayerMC", "MvtLayerGen.cfg", workers=2)
    shards = ctx.gen("mvtlayerclip", cases=cases)
    ctx.validate("MvtLayer_Trace", shards, stage="mvt-layer-clip")
    ctx.exhaustive = True
    ctx.notes.append("exhaustive part: every closed 3-vertex ring of the 5x5 (quick) / 6x6 (thorough) grid x every box with integer corners")


PLANS["C08"] = dict(
    run=run_c08, signature=sig_default,
    technique="TLA+ region predicates (exact even-odd membership on a query lattice, shoelace additivity); TLC model-checks the Sutherland-Hodgman design against them and validates traces of the real clip.Ring/Polygon/MultiPolygon/Collection/Geometry/Bound and mvt Layer.Clip calls",
    level_text="TLC exhaustively checks that the four-pass Sutherland-Hodgman transcription of clip.ring() satisfies the region predicate (q in output iff q in input for every quarter-step lattice point strictly inside the box and off all boundaries), in-box, closure, inside-unchanged, bound-disjoint-nothing and split additivity of the signed area for every closed ring of <=3 (quick) / <=4 (thorough) vertices on a 5x5 grid x 9 boxes, and judges the real code's outputs on every closed 3-vertex ring x every box, seeded 4..12-vertex arbitrary/star-shaped rings on integer and half-integer grids, polygons with holes, multipolygons, all box splits, and the structural laws of MultiPoint, Bound, Collection, generic Geometry and mvt Layer.Clip. Every call sees the figure at its own size or scaled exactly by 2^30, 2^-20 or 2^44. Every third figure is handed over with its rings carved out of one coordinate array, one behind the other (fixed in 46dcf4c: the scratch space of one ring used to reach into the next). The rings lent to the previous call must still hold what that call left in them; mvt layers have extents 512 .. 8192 (the box is in the layer's units).",
    level_note="Vertices on 7x7 integer / half-integer grids; outputs projected to the 1/60 (1/120) lattice (residual > 1e-7 lattice units = 'offlattice' event, rejected). 'A ring disjoint from the box yields nothing' is checked for rings whose bound misses the box; a ring that surrounds the box without meeting it must only produce a region-empty result. General-position floats are not covered. Trusted: TLC, Json module, the lattice projection.",
    rule="one event = one real clip call with input and output in lattice units; non-trivial = output non-empty and different from the input (clipring), both halves non-empty (clipsplit), some but not all points kept (clippts), more than one member (clipcoll); distinct = distinct event text",
    assumptions=["every Sutherland-Hodgman vertex is an input vertex, a box corner or an input edge /\\ box line, hence on the lattice (residual checked per vertex)"],
    trusted_base=["TLC 2026.09.04", "CommunityModules Json/IOUtils", "harness lattice projection (quant)"],
)

# ---- X01: extended coverage, not a listed property (not in MANIFEST.json) -----------------------------


def run_x01(ctx):
    ctx.mc("MvtLayerMC", "MvtLayerMC.cfg", workers=4, note="in-place compaction loop = filter-map")
    ctx.mc_expect_violation("MvtLayerMC", "MvtLayerMC_splice.cfg", "SpliceFinal", workers=1, note="non-vacuity")
    cases = ctx.tlcgen("MvtLayerMC", "MvtLayerGen.cfg", workers=2)
    shards = ctx.gen("mvtlayer", cases=cases)
    ctx.validate("MvtLayer_Trace", shards)
    # sequences of operations on the same layers: the trace spec carries every layer's feature list from step to step
    shards = ctx.gen("mvtpipeline")
    ctx.validate("MvtLayerPipe_Trace", shards, stage="pipeline-histories")
    ctx.exhaustive = True


PLANS["X01"] = dict(
    run=run_x01, signature=sig_default,
    technique="TLA+ model of the mvt.Layer pipeline (Clip, Simplify, RemoveEmpty) as filter-map over features; TLC checks the in-place compaction loop against it, emits every result vector for replay and validates traces of the real Layer / Layers methods",
    level_text="extended coverage (no listed property): every keep / change / drop vector of <=5 features replayed through Layer.Clip, Layer.Simplify, Layer.RemoveEmpty and the Layers variants, alone and between two other layers, plus seeded layers of up to 11 features; TLC requires the resulting feature list to be exactly the filter-map of the per-geometry results, in order, with feature identity kept.",
    level_note="per-geometry results come from calling clip.Geometry / the simplifier / planar.Length and Area directly (those are judged by C08, C12, C10)",
    rule="one event = one layer before and after one operation", assumptions=[], trusted_base=["TLC 2026.09.04", "CommunityModules Json/IOUtils"],
)

# ---- X02: extended coverage -------------------------------------------------------------------------


def run_x02(ctx):
    ctx.mc("MergeUpPartial", "MergeUpPartial_%s.cfg" % ctx.tier, workers=8, timeout=3000, heap="16g",
           note="MergeUpPartial loop with ANY map iteration order = level-wise partial merge PM for count 1..4; no area lost, never above min, exact for count 4")
    shards = ctx.gen("mergepartial")
    ctx.validate("MergeUpPartial_Trace", shards, cfg="MergeUpPartial_Trace.cfg")


PLANS["X02"] = dict(
    run=run_x02, signature=sig_default,
    technique="TLA+ state machine of tilecover.MergeUpPartial with nondeterministic map order checked against a level-wise abstract result; TLC validates traces of the real MergeUpPartial and maptile.Set.Merge",
    level_text="extended coverage (no listed property): TLC explores the MergeUpPartial loop in every map iteration order for structured zoom-2 inputs x min 0..2 x count 1..4 and checks result = PM, no area lost, never shallower than min, every result tile justified by an input tile, exact cover and disjointness for count = 4. Real MergeUpPartial results (4 repetitions each) on seeded zoom-2 and zoom-4 sets must equal PM and not vary; Set.Merge must be the union with the true entries of its argument and leave the argument unchanged.",
    level_note="TLC found that for count < 4 the result may contain a tile together with one of its ancestors (recorded as an observation in DESIGN.md; MergeUpPartial is not covered by a listed property)",
    rule="one event = one MergeUpPartial input (4 repetitions) or one Set.Merge call", assumptions=[], trusted_base=["TLC 2026.09.04", "CommunityModules Json/IOUtils"],
)

# ---- X03: extended coverage -------------------------------------------------------------------------


def run_x03(ctx):
    ctx.mc("SimplifyMC", "SimplifyMC_quick.cfg", workers=8, note="the transcriptions satisfy the C12 relations on the bounded path set")
    shards = ctx.gen("simplify")
    ctx.validate("Simplify_Conf_Trace", shards)


PLANS["X03"] = dict(
    run=run_x03, signature=sig_default,
    technique="trace validation of the real simplifiers against the implementation-shaped TLA+ transcriptions (DPImpl, RadialImpl, VisImplResults) that SimplifyMC model-checks",
    level_text="extended coverage (no listed property): for every recorded simplifier call on a path of <= 9 vertices TLC requires the real output to equal the transcription's (Douglas-Peucker, radial) or to be one of the transcription's possible outputs (Visvalingam, ties free), binding the model-checked design to the code beyond the relations C12 states.",
    level_note="paths on small integer grids with thresholds a/4: every distance comparison is exact in float64",
    rule="one event = one simplifier call", assumptions=[], trusted_base=["TLC 2026.09.04", "CommunityModules Json/IOUtils"],
)

# ---- X04: extended coverage -------------------------------------------------------------------------


def run_x04(ctx):
    ctx.mc("ClipRingMC", "ClipRingMC_quick.cfg", note="the Sutherland-Hodgman transcription satisfies the C08 predicates")
    shards = ctx.gen("clipring")
    ctx.validate("ClipRing_Conf_Trace", shards)


PLANS["X04"] = dict(
    run=run_x04, signature=sig_default,
    technique="trace validation of the real clip.Ring against the Sutherland-Hodgman TLA+ transcription (SHRing) that ClipRingMC model-checks",
    level_text="extended coverage (no listed property): for every recorded single-ring clip TLC requires the real output to be exactly the vertex sequence of the transcription, binding the model-checked design to the code beyond the region predicate C08 states.",
    level_note="lattice inputs: every intersection is exact",
    rule="one event = one clip.Ring call", assumptions=[], trusted_base=["TLC 2026.09.04", "CommunityModules Json/IOUtils"],
)

# ---- X05: extended coverage -------------------------------------------------------------------------


def run_x05(ctx):
    cases = ctx.tlcgen("QuadtreeGen", "QuadtreeGen_%s.cfg" % ctx.tier)
    shards = ctx.gen("qtreplay", cases=cases)
    ctx.validate("Quadtree_Conf_Trace", shards)
    ctx.exhaustive = True


PLANS["X05"] = dict(
    run=run_x05, signature=sig_default,
    technique="replay of TLC-generated behaviours of the implementation-shaped quadtree spec into the real tree with the node tree compared after every action",
    level_text="extended coverage (no listed property): every history of length 4 (quick) / 5 (thorough, every sixth) of add / remove-by-point / remove-by-identity over the 6-point alphabet is replayed into a real quadtree.Quadtree; after each operation the real node tree (path -> pointer, emptied nodes included, read through the VerifWalk hook) must be exactly the node tree QuadtreeImpl predicts and the result must be the predicted result. This binds the facts QuadtreeMC proves about the transcription to the code.",
    level_note="the node tree is not fixed by any listed property (C11 speaks about query answers); a different but correct tree shape would be reported here and only here",
    rule="one event = one operation of a replayed history", assumptions=[], trusted_base=["TLC 2026.09.04", "CommunityModules Json/IOUtils", "quadtree/verif_walk.go (build tag verif)"],
)

# ---- X06: extended coverage -------------------------------------------------------------------------


def run_x06(ctx):
    cases = ctx.tlcgen("WkbGen", "WkbGen.cfg", workers=4)
    shards = ctx.gen("accessors", cases=cases)
    ctx.validate("CoreAccessors_Trace", shards)
    ctx.exhaustive = True


PLANS["X06"] = dict(
    run=run_x06, signature=sig_default,
    technique="TLA+ kind tables and bound accessor definitions; TLC emits the bounded shape set for replay and validates traces of Dimensions / GeoJSONType and of every orb.Bound accessor",
    level_text="extended coverage (no listed property): Dimensions and GeoJSONType of each of the 534 shapes (collections: the maximum over the members, -1 when empty; ring and bound spelled Polygon), and for seeded integer bounds - well-formed, inverted, zero - Pad, Center, Top/Bottom/Left/Right, LeftTop/RightBottom, IsEmpty, IsZero, ToRing (counter-clockwise, closed), ToPolygon, Bound, Equal.",
    level_note="integer coordinates (all results exact)",
    rule="one event = one shape or one bound", assumptions=[], trusted_base=["TLC 2026.09.04", "CommunityModules Json/IOUtils"],
)

# ---- X07: extended coverage -------------------------------------------------------------------------


def run_x07(ctx):
    shards = ctx.gen("misc")
    ctx.validate("Misc_Trace", shards)
    shards = ctx.gen("miscedges", shards=1)
    ctx.validate("Misc_Trace", shards, stage="edge-case-table")


PLANS["X07"] = dict(
    run=run_x07, signature=sig_default,
    technique="TLA+ decision table for geojson.Properties.Must*, definitions for BBox, Ring.Closed, and relational checks (integer residuals) for the remaining small public functions; TLC validates traces of the real calls",
    level_text="extended coverage (no listed property): Properties.MustBool/MustInt/MustFloat64/MustString for every kind of stored value x default supplied or not (value, default or panic exactly as the table says); NewBBox / BBox.Valid / BBox.Bound; mvt.NewLayers / ToFeatureCollections (version 1 and the default extent, same feature pointers, map round trip); Set / Tiles ToFeatureCollection (one counter-clockwise closed polygon per tile with the tile's bound); wkb / ewkb MarshalToHex, MustMarshal, MustMarshalToHex against Marshal; Ring.Closed; planar.DistanceSquared, DistanceFromSegment, project.MercatorScaleFactor (1e-8 relative); geo.Bearing as the inverse of PointAtBearingAndDistance, PointAtDistanceAlongLine, LengthHaversign, NewBoundAroundPoint, BoundHeight, BoundWidth, BoundPad (stated tolerances). Edge cases as a second decision table (EdgeOutcome): PointAtDistanceAlongLine on empty / one-vertex lines and negative, zero and oversize distances; ChildrenInZoomRange argument checks; Quadtree.Bound; clip.Bound with empty operands (neutral element), overlapping and disjoint boxes, a bound through clip.Geometry; NewBoundAroundPoint next to a pole (capped, every longitude) and across the antimeridian (wrapped).",
    level_note="numeric relations are computed as integer residuals by the harness and compared with a tolerance by TLC; trips of 1..200 km below 75 degrees latitude",
    rule="one event = one call or one small group of related calls", assumptions=[], trusted_base=["TLC 2026.09.04", "CommunityModules Json/IOUtils"],
)

# ---- X08: smartWrap as a state machine ---------------------------------------------------------------


def run_x08(ctx):
    ctx.mc("SmartWrapMC", "SmartWrapMC_%s.cfg" % ctx.tier, workers=8,
           note="the walk of smartWrap (sorted endpoints, used flags, jump behind the appended piece) yields exactly the cycles of 'end -> next start' on every valid configuration")
    if ctx.tier == "thorough":
        ctx.mc("SmartWrapMC", "SmartWrapMC_quick.cfg", workers=8, note="the same for <=4 pieces on 8 positions")
    ctx.mc_expect_violation("SmartWrapMC", "SmartWrapMC_bad.cfg", "WalkOK", workers=8,
                            note="non-vacuity: a walk that does not jump behind the appended piece's end violates WalkOK")
    cases = ctx.tlcgen("SmartWrapMC", "SmartWrapGen_%s.cfg" % ctx.tier, workers=8)
    shards = ctx.gen("smartwrap", cases=cases)
    ctx.validate("SmartWrap_Trace", shards)
    ctx.exhaustive = True
    ctx.notes.append("exhaustive part: every valid configuration of <=4 pieces on 8 outline positions (quick) / <=3 pieces on 12 (thorough), both windings")


PLANS["X08"] = dict(
    run=run_x08, signature=sig_default,
    technique="TLA+ state machine of smartclip.smartWrap (endpoint array sorted around the box outline, used flags, current ring, jump to endpoint.OtherEnd); TLC checks it against 'cycles of end -> next start' on every valid piece configuration and emits the configurations; each is built as real rings and clipped by the real code",
    level_text="extended coverage (no listed property): for every configuration of <=4 pieces with distinct endpoints on 8 outline positions (thorough: also <=3 pieces on 12) that can come from disjoint simple rings (chords do not cross, after every end the next endpoint is a start) TLC explores the walk of smartWrap step by step and requires that it ends with every piece in exactly one ring and the rings equal to the cycles of 'end -> next start'; a variant without the jump behind the appended piece must violate this. Each configuration is then replayed: its cycles become real rings (pieces as chords of the box with one inner vertex, joined outside the box along the outline), clipped through Ring / Polygon / MultiPolygon / Geometry counter-clockwise and - mirrored - clockwise, and TLC requires the pieces found along each result polygon, in order, to be exactly the spec's cycles, each ring closed, inside the box and wound as asked.",
    level_note="General position only (all endpoint positions differ): coinciding endpoints are the recorded finding of C16. The sort itself is not modelled (for more than 12 endpoints Go's sort is not an insertion sort); configurations have at most 8 endpoints.",
    rule="one event = one real call on the rings of one configuration; distinct = distinct event text", assumptions=[], trusted_base=["TLC 2026.09.04", "CommunityModules Json/IOUtils", "harness lattice projection"],
)

# ---- X09 -------------------------------------------------------------------------------------------


def run_x09(ctx):
    ctx.mc("TileFillMC", "TileFillMC_%s.cfg" % ctx.tier, workers=L.NCPU,
           note="the transcription of tilecover.polygon() (walk with ring record, intersection choice, pairwise fill) covers exactly what it must on every closed lattice triangle of a 3x3 tile window, 4 units per tile (quick: every eighth first vertex)")
    if ctx.tier == "thorough":
        ctx.mc("TileFillMC", "TileFillMC_quads.cfg", workers=L.NCPU, note="the same for every simple closed quadrilateral, 2 units per tile")
    ctx.mc_expect_violation("TileFillMC", "TileFillMC_bad.cfg", "NoError", workers=8,
                            note="non-vacuity: line() without its closing correction of the ring record reports uneven intersections")
    shards = ctx.gen("tilecover")
    ctx.validate("TileFill_Trace", shards)
    ctx.exhaustive = True
    ctx.notes.append("exhaustive part: every closed triangle with vertices on the 13x13 lattice points of a 3x3 tile window (thorough; quick: first vertices sampled 1 in 8), every simple quadrilateral on the 7x7 lattice (thorough)")


PLANS["X09"] = dict(
    run=run_x09, signature=sig_default,
    technique="TLA+ transcription of tilecover.polygon() - the grid walk of line() with its ring record across segments, the choice of scan-line intersections (no local extremum, successor in another row), sorting and pairwise fill - in exact arithmetic; TLC checks it against 'every tile the boundary passes through or that lies inside, nothing that lies outside' on every lattice triangle / quadrilateral, and the real covers of general-position polygons must equal it tile for tile",
    level_text="extended coverage (no listed property): TLC evaluates the transcription of polygon() on every closed triangle with vertices on the lattice points of a 3x3 tile window at 4 units per tile (4.65 million; vertices on tile lines and corners, edges along tile lines and through corners included; quick: one first vertex in eight) and, thorough, on every simple quadrilateral at 2 units per tile (2.1 million), and requires: no uneven-intersections error, every tile whose inside the boundary passes through and every tile wholly inside covered, no tile wholly outside covered; a variant of line() without the closing correction of its ring record must violate this. The 'poly' events of the tilecover family (real Polygon / Ring / MultiPolygon / Geometry calls on lattice polygons with holes, 64 or 8192 units per tile) are then judged exactly: for figures in general position (no vertex on a tile line, no edge within a unit of a tile corner) the real cover must equal the transcription's, tile for tile, as the union over the members.",
    level_note="Figures not in general position are left to C14's Must/May judgement (floating-point rounding decides at exact corner and edge crossings). The spec checks its own non-vacuity: the number of exactly judged events is reported.",
    rule="one event = one real tilecover call on lattice polygons; distinct = distinct event text", assumptions=[], trusted_base=["TLC 2026.09.04", "CommunityModules Json/IOUtils", "harness lattice projection (inverse mercator guarded by maptile.Fraction)"],
)

# ---- C11 -------------------------------------------------------------------------------------------


def run_c11(ctx):
    ctx.mc("QuadtreeMC", "QuadtreeMC_%s.cfg" % ctx.tier,
           note="node-tree transcription refines the bag model: every step, cell invariant, nearest/k-nearest(heap)/in-bound with pruning")
    cases = ctx.tlcgen("QuadtreeGen", "QuadtreeGen_%s.cfg" % ctx.tier)
    shards = ctx.gen("qtreplay", cases=cases)
    ctx.validate("QuadtreeList_Trace", shards, stage="replay-of-TLC-histories")
    shards = ctx.gen("qtrandom")
    ctx.validate("QuadtreeList_Trace", shards, stage="random-histories")
    # sizes: trees of 300 .. 5000 (20 000) pointers, every query compared with a plain scan by the harness
    shards = ctx.gen("qtbig", shards=1)
    ctx.validate("QuadtreeList_Trace", shards, stage="big-trees")
    ctx.exhaustive = True
    ctx.notes.append("exhaustive part: every history of add/remove-by-point/remove-by-identity of length 4 (quick) / 5 (thorough) over a 6-point alphabet, replayed into the real tree")


PLANS["C11"] = dict(
    run=run_c11, signature=sig_default,
    technique="TLA+ bag model of the quadtree with relational query specs; TLC checks the node-tree design refines it over all short histories, generates every short history for replay into the real tree, and validates the recorded traces (contents, node cells, query results)",
    level_text="TLC explores every history of add / remove-by-point / remove-by-identity up to length 5 (quick) / 6 (thorough) over a 6-point alphabet (duplicate, midline, bound-corner, outside points) and checks in every state that the node-tree transcription (midline rule, pull-up removal, pruned nearest-child-first search, array max-heap) refines the bag model for a family of 16 query points x k in 1..3 x 3 limits x 5 boxes x 3 filters. TLC then emits every history of length 4 (5) with predicted results; the harness replays them into a real quadtree.Quadtree and after each step records contents, the node tree (hook VerifWalk) and ~130 query results, plus seeded histories of 200-500 operations over 16 points; TLC judges every event against the bag model. Seeded histories run in three coordinate maps: integers, integers / 1024 (a unit-square tree: distance limits below 1), and positions in an increasing table of arbitrary floats (non-dyadic bounds, cell midlines written either way, one-ulp neighbours) for the order-based operations (add, remove, bound search incl. degenerate boxes). One distance limit per history equals the exact distance between a query point and a stored point (strictly-within boundary). Every 23rd observation uses k around the stored count and around 16 / 20 / 32, a k followed by k+1, and a limit of exactly zero; ranked tables hold points closer together than the square root of the smallest float. Sizes: trees of 300 .. 5000 (20 000) pointers with duplicates, midline points and a deep cluster go through fill / thin (removal by identity and by point) / refill, and after each phase 60 queries of every kind, filtered and not, are compared with a plain scan over what should be stored (by the harness; TLC checks the verdicts). A second tree stores plain struct values that carry a slice (an orb.Pointer that cannot be compared with ==): filled, thinned by point and by a caller's match function, searched, against a scan. Every other value-pointer tree has a bound without an end in x or in both axes; stored points have neighbours one float64 away, asked for from the origin through a filter that admits only the pair (squared distances differ in the last place, distances not at all).",
    level_note="Integer coordinates in power-of-two bounds (all distances and midlines exact); ties between equidistant pointers may be broken either way; KNearest with k <= 0 is outside the quantifier and not exercised. Trusted: TLC, Json module, the VerifWalk hook (read-only), int conversions in the harness.",
    rule="one event = one operation on a real tree with the observed contents, node tree and all query results after it; every event is non-trivial (nt=1); distinct = distinct event text",
    assumptions=["pointer identity is modelled by a unique integer id per added pointer",
                 "at most three live copies of one point in random histories (keeps cell edges exact at 1/1024)"],
    trusted_base=["TLC 2026.09.04", "CommunityModules Json/IOUtils", "quadtree/verif_walk.go (build tag verif)"],
)

# ---- C19 -------------------------------------------------------------------------------------------


def run_c19(ctx):
    ctx.mc("QuadtreeConcMC", "QuadtreeConcMC_ok.cfg", note="3 query processes, all interleavings: NoSharedWrite, Deterministic, TreeUnchanged")
    ctx.mc_expect_violation("QuadtreeConcMC", "QuadtreeConcMC_shared_write.cfg", "NoSharedWrite", note="non-vacuity: search box kept in the tree object")
    ctx.mc_expect_violation("QuadtreeConcMC", "QuadtreeConcMC_shared_result.cfg", "Deterministic", note="non-vacuity: a query prunes with another query's box")
    ctx.mc_expect_violation("QuadtreeConcMC", "QuadtreeConcMC_compact.cfg", "TreeUnchanged", note="non-vacuity: a reader unlinks emptied leaves")
    for v in (["A"] if not ctx.thorough() else ["A", "B", "C"]):
        cases = ctx.tlcgen("QuadtreeConcGen", "QuadtreeConcGen_%s.cfg" % v)
        shards = ctx.gen("qtsched", cases=cases, name="qtsched" + v)
        ctx.validate("QuadtreeList_Trace", shards, stage="scheduled-interleavings-" + v)
    # one query paused in the middle (in its filter, or in the Point() method of a pointer it looks at) while another runs
    # from start to finish
    shards = ctx.gen("qtgate", shards=2)
    ctx.validate("QuadtreeList_Trace", shards, stage="paused-queries")
    if os.environ.get("VERIF_SKIP_RACE"):      # diagnosis only: see what the scheduled stage catches alone
        return
    race = ctx.build(race=True)
    shards = ctx.gen("qtrace", binary=race, env={"GORACE": "halt_on_error=1 exitcode=66"})
    ctx.validate("QuadtreeList_Trace", shards, stage="free-running-goroutines-race-detector")
    ctx.exhaustive = True
    ctx.notes.append("exhaustive part: every interleaving (at node-visit granularity) of two queries on an 8-point tree with removals")


PLANS["C19"] = dict(
    run=run_c19, signature=sig_default,
    technique="TLA+ spec of queries as interleaved per-visit processes over a read-only tree; TLC checks all interleavings (and that shared-scratch designs fail), emits every interleaving as a schedule replayed into gated goroutines, and validates results of free-running goroutines under the race detector",
    level_text="TLC checks every interleaving of 3 query processes (nearest and k-nearest, one step per node visit) over a tree with removals for NoSharedWrite, Deterministic (= the same query alone) and TreeUnchanged, and confirms that the two forbidden designs (search box in the tree object; readers compacting emptied leaves) violate them. Every interleaving of two queries is then emitted as a schedule and replayed: one goroutine per query, each node visit gated through the filter callback; after it, results must equal the same query run alone and satisfy the bag-model relations, and the node tree (hook VerifWalk) must be identical. Paused queries: for seeded trees and pairs of queries of all six kinds (incl. the same point and k with different limits) query A is stopped inside its filter callback - or, for the unfiltered kinds, inside the Point() method of the first pointer it looks at - while query B runs from start to finish; B must complete and both must return what they return alone. Finally 2..32 free-running goroutines with mixed queries and per-goroutine buffers run on seeded trees under the Go race detector; a race report kills the harness and is a violation. Per goroutine the filtered questions come first or last; a 42-level tree branching at every level is walked by one query while another is stopped at its innermost point; the concurrent queries include distance limits of five times the tree's width, and every twelfth tree is one nothing was ever added to. Half of the trees give their goroutines result windows carved from one shared array (capacity reaching into the neighbours' windows: a query writes its k results and nothing else); every fourth tree has 170..230 points and lost half of them. Every goroutine also asks 4 000 plain nearest-point questions over 600 places shared by all (answers taken beforehand), gives twenty searches up through a panicking filter - each followed by an ordinary search that must be ordinary - and half of them ask a second pre-built tree for its 300 nearest in between; some goroutines use k = 300 on the tree itself.",
    level_note="Schedules are at filter-call granularity (the only hookless yield point); instructions inside one visit are not interleaved deterministically - that is what the race-detector stage covers probabilistically. Trusted: TLC, the Go race detector, the VerifWalk hook.",
    rule="one event = one tree-building operation or one goroutine's query batch (concurrent results, the same queries alone, node tree before/after); every event non-trivial; distinct = distinct event text",
    assumptions=["goroutine scheduling between gates is sequentialised by the controller; within a visit the Go scheduler decides"],
    trusted_base=["TLC 2026.09.04", "CommunityModules Json/IOUtils", "Go race detector", "quadtree/verif_walk.go"],
)

# ---- C03 -------------------------------------------------------------------------------------------


def run_c03(ctx):
    ctx.mc("MvtMC", "MvtMC_%s.cfg" % ctx.tier, note="points/lines incl. |v| = 2^28-1: Decode(Encode(g)) = Canon(g); zig-zag bijective; decoder total on short word sequences")
    ctx.mc("MvtMC", "MvtMC_rings_%s.cfg" % ctx.tier, note="rings/polygons/multipolygons of triangles: regrouping by winding gives Canon(g)")
    shards = ctx.gen("mvt")
    ctx.validate("Mvt_Trace", shards)
    # sizes: layers of 100 .. 4000 (65 536) features that compress more than tenfold, plain and gzipped
    shards = ctx.gen("mvtbig", shards=1)
    ctx.validate("Mvt_Trace", shards, stage="big-layers")


def sig_c03(ev):
    if ev.get("_alt"):
        return "mvt.Marshal:collection-members-after-first-dropped"
    return sig_default(ev)


PLANS["C03"] = dict(
    run=run_c03, signature=sig_c03,
    technique="TLA+ state machines for the MVT command-stream encoder/decoder and the key/value tables; TLC model-checks Decode(Encode(g)) = Canon(g) and validates traces of real Marshal/Unmarshal calls byte-structure for byte-structure",
    level_text="TLC checks on all small geometries (points/lines over {+-(2^28-1), -1, 0, 2}, rings/polygons/multipolygons of triangles) that the decoder state machine applied to the encoder state machine's command words yields Canon(g), that zig-zag is bijective there and that the decoder is total on every sequence of <=4 (5) command words over a 10-word alphabet. For seeded layer lists (all kinds, |v| < 2^28 for points/lines, |v| <= 8192 for polygons, every Go numeric kind, nil, slices, maps, colliding numbers of different types, ids, versions, extents) TLC then requires: the tile message read back through the generated protobuf type equals the specified encoding exactly (keys, values, tags, command words), three repeated marshals are byte-identical, Unmarshal and UnmarshalGzipped return Canon of the input with widened numbers. Feature ids of every numeric Go kind including 0; tiny rings placed up to 2^28 from the origin (winding must not depend on position); the bytes and layers returned for the previous event must be unchanged by later calls (no shared buffers). Sizes: layers of 100, 1000, 4000 (20 000, 65 536 thorough) point or line features repeating the same property values (the tile compresses more than tenfold) must come back whole on the plain and on the gzipped path (compared feature by feature in the harness, counts by TLC). The layers the gzipped path returned for the previous event are re-read after the next call (names, keys, string values); the same layers marshalled plain and gzipped 1.2 s apart give the same bytes. Ids in the upper half of the uint64 range and odd ids at 2^52 / 2^23 held as float64 / float32; string values that are not valid UTF-8; consecutive features, also across a layer border, share one Properties map object. Tiles of five layers of very different sizes (thousands of features, an empty and a one-feature layer) come back in the order given, thrice the same bytes; lines may repeat a vertex.",
    level_note="Polygon kinds are judged by TLC only for |v| <= 8192 (the ring-regrouping shoelace needs 57 bits at 2^28; TLC integers are 32-bit); the cursor/zig-zag path is exercised to 2^28 on point and line kinds. NaN and -0 property values are not generated (Go map keys treat them specially). Nested or empty collections make Marshal return an error and are outside the quantifier. Trusted: TLC, Json module, gogo/protobuf vectortile.Tile.Unmarshal as the lens on the bytes, encoding/json for uncomparable values, bit interning.",
    rule="one event = one layer list with the tile message and both decoded results; non-trivial = at least one feature with a geometry; distinct = distinct event text",
    assumptions=["the generated protobuf type reads the tile bytes faithfully", "outer rings counter-clockwise and holes clockwise with non-zero area (asserted by the spec per event)"],
    trusted_base=["TLC 2026.09.04", "CommunityModules Json/IOUtils", "vectortile.Tile.Unmarshal (generated code)", "harness interning"],
)

# ---- C01 -------------------------------------------------------------------------------------------


def run_c01(ctx):
    ctx.mc("WkbMC", "WkbMC_%s.cfg" % ctx.tier, workers=4,
           note="byte grammar: reference decoder inverts the encoder on the bounded shape set x orders x SRIDs; truncations fail; coercion table total")
    cases = ctx.tlcgen("WkbGen", "WkbGen.cfg", workers=4)
    shards = ctx.gen("wkbshapes", cases=cases)
    ctx.validate("Wkb_Trace", shards, stage="replay-of-TLC-shape-set")
    shards = ctx.gen("wkbrandom")
    ctx.validate("Wkb_Trace", shards, stage="random-geometries")
    # sizes around the decoders' allocation step (10 000 points) in both byte orders, and the hex entry points
    shards = ctx.gen("wkbbig", shards=4)
    ctx.validate("Wkb_Trace", shards, stage="big-geometries-and-hex")
    # streams: one Encoder / Decoder pair over one pipe (encoder settings and scratch buffer persist between calls)
    ctx.mc("WkbStreamMC", "WkbStreamMC_%s.cfg" % ctx.tier, workers=8,
           note="stream model: the pipe is a FIFO of self-delimiting messages for every history of set-order / set-SRID / encode / decode operations")
    cases = ctx.tlcgen("WkbStreamMC", "WkbStreamGen.cfg", workers=4)
    shards = ctx.gen("wkbstream", cases=cases)
    ctx.validate("WkbStream_Trace", shards, stage="replay-of-TLC-stream-histories")
    shards = ctx.gen("wkbstreamrandom")
    ctx.validate("WkbStream_Trace", shards, stage="random-stream-histories")
    ctx.exhaustive = True
    ctx.notes.append("exhaustive part: the 534-shape bounded set x {wkb, ewkb} x {LE, BE} x SRIDs x 10 scanner destinations x 4 framings")


PLANS["C01"] = dict(
    run=run_c01, signature=sig_default,
    technique="TLA+ byte grammar of WKB/EWKB with coordinates as opaque 8-byte strings; TLC checks the reference decoder inverts the encoder on a bounded shape set, emits that set for replay, and validates the real bytes and every decode path byte for byte",
    level_text="TLC checks on every geometry of a bounded shape set (nine kinds + nil, empty and nil-like members, collections to depth 2, header-looking coordinate bytes) x byte orders x SRIDs {absent, 1, 4326, 2^31-1} that the reference decoder inverts the encoder exactly, that every proper prefix fails to decode, and that the scanner coercion table is total. The same 534 shapes are emitted and replayed through the real wkb and ewkb packages (Marshal, Unmarshal, Decoder, Scanner x 10 destinations x raw/hex/\\\\x-hex/SRID-prefix framings, Value, ValuePrefixSRID), and seeded geometries over every float64 class (NaN payloads, infinities, -0, subnormals, random bits; up to 200 vertices, nesting 4); TLC requires the produced bytes to equal the specified encoding byte for byte and every path to return the canonical value with the written SRID under the documented coercions. Streams: a TLA+ model of one Encoder and one Decoder over one byte pipe (encoder byte order and default SRID persist, the pipe is a FIFO of self-delimiting messages) is model-checked over every history of <=3 (4) operations; every such history is replayed through the real wkb and ewkb Encoder / Decoder with whole, 1-byte and 3-byte reads, plus seeded histories with random geometries, chunked readers and a writer that fails part-way; TLC steps the model along each recorded history and requires every Encode to have written exactly the specified bytes (or a reported prefix) and every Decode to return the oldest undecoded value, its SRID, and to consume exactly one message. Scanners and destinations kept across events (a rows.Scan loop) must answer like fresh ones. Sizes: line strings, multi-points, polygons and multi-line strings with 9 999 .. 20 001 (65 537 thorough) vertices per part, both byte orders, through every decode path (value compared in the harness, byte length against the format by TLC); the hex entry points must give the hex of Marshal for the same SRID, zero included, under default SRIDs 4326, 0 and 3857. What every long-lived scanner handed out last time (its Geometry attribute and the typed destination's value) is re-read bit for bit after its next scan, and one wkb scanner object sees SRID-prefixed, raw and hex rows in turn. A point nested 17..1000 collections deep goes through every path; big inputs sit at all eight alignments of a buffer that is overwritten after decoding. The stream decoders read through every legal reader shape (bytes delivered together with io.EOF, one byte or half the request per read, bufio; the pipe of the stream model reports EOF with its last bytes in half of the histories), and what the byte and the stream decoder return must encode to the bytes it was decoded from. EWKB bytes also go through the three decode paths of the wkb package (the SRID is ignored, as its readme says) and must give the same geometry; SRIDs and prefix SRIDs whose bytes spell a byte-order mark and a type word, hex digits or the \\x marker.",
    level_note="The wkb (non-E) scanner's documented, deprecated SRID-prefix retry heuristic is exercised only for prefixes whose low byte is not 0 or 1 (otherwise the prefix is indistinguishable from a header); ewkb.ScannerPrefixSRID is exercised for all SRIDs. Collections with typed-nil members are outside the quantifier. Scanning into a Bound is judged on coordinate ranks (not for NaN inputs). Trusted: TLC, Json module, bit interning of coordinates, encoding/hex for the framings.",
    rule="one event = one geometry x package x byte order x SRID with the produced bytes and the result of every decode path; non-trivial = non-nil geometry; distinct = distinct event text",
    assumptions=["a float64 is identified with its bit pattern (8 bytes) by the harness interning"],
    trusted_base=["TLC 2026.09.04", "CommunityModules Json/IOUtils", "harness bit interning", "encoding/hex"],
)

# ---- C06 -------------------------------------------------------------------------------------------


def run_c06(ctx):
    ctx.mc("CoreValueMC", "CoreValueMC_%s.cfg" % ctx.tier, note="box operations satisfy the lattice laws on all pairs/triples incl. the empty bound; reversal/orientation/tight-bound laws on small rings")
    shards = ctx.gen("core")
    ctx.validate("Core_Trace", shards)


def sig_c06(ev):
    if ev.get("_alt"):
        return "orb.Clone:typed-nil-slice-becomes-nil-interface"
    return "%s:%s" % (ev.get("k"), ev.get("fn", "")) if ev.get("k") not in ("panic", "timeout") else sig_default(ev)


PLANS["C06"] = dict(
    run=run_c06, signature=sig_c06,
    technique="TLA+ value model (structural equality, tight bound, set-theoretic box operations, shoelace orientation); TLC checks the lattice laws on the model and validates traces of real Clone/Equal/Bound/Union/Extend/Contains/Intersects/Reverse/Orientation calls incl. every single-vertex in-place edit",
    level_text="TLC checks the lattice laws (idempotent, commutative, associative, empty = identity, contains/extends/intersects consistency) for all pairs and triples of boxes over 3 (quick) / 4 (thorough) ranks including the empty bound, and reversal/orientation/tight-bound laws for all rings of <=4 vertices on a small grid. For seeded shapes of all nine kinds with nil and empty slices, empty members first/last, single-vertex members and nested collections, the harness records: the clone (generic and typed), the interned backing-array addresses of both values, and the value of both after editing each vertex of the clone and then of the original in place; orb.Equal on copied / perturbed / re-nested / truncated pairs and triples; Bound(); the Bound methods on pairs/triples; Reverse and Orientation. TLC requires each to equal the model (clone equal and alias-free, Equal = structural equality and an equivalence, Bound = tight box of the counting vertices, method results = box operations, double reversal = identity, orientation = shoelace sign negated by reversal). Equal is also asked about a Bound and the Ring / Polygon / Collection that has exactly that box, in either argument order. Orientation is also asked of the same ring translated exactly by 1e8 .. 2^45; the lattice laws also take empty bounds of other spellings (Min and Max the wrong way round in x, in y, a box padded inwards beyond its size); equality is also asked of pairs that differ in one coordinate by one unit in the last place, a relative 1e-14 or 1e-12, at magnitudes 1 .. 1e8. A copy with every zero of the other sign is equal; bounds are equal exactly when their corners are. A ring that reads the same in both directions (a, b, c, b, a over arbitrary decimal coordinates) has no orientation; the lattice ring with every edge cut into 32 or 64 equal parts (96..384 vertices, any start) winds like the original. Bound(), Union, Extend, Contains and Intersects also run on the lattice figure stretched by a strictly increasing axis map that sends its outermost lines to +-Inf or +-MaxFloat64 (half planes, the whole plane). The family starts with 30 000 x 17 clone / equal / bound calls on nil and empty values of every kind (nothing may depend on how many calls came before). Sizes: the box of 2^20 .. 2^20+7 (2^21+3 thorough) vertices with the extremes among the last few, through six kinds; collections of 10 001 .. 40 000 (200 000) nested collections cloned, compared and bounded (harness-side, verdict by TLC); nested collections that are views all[:1], all[:2], all of one member array are bounded as they are.",
    level_note="Small integer coordinates (exact); NaN is not generated (== is not reflexive on it). Typed-nil members inside collections are not generated. Trusted: TLC, Json module, unsafe.SliceData address interning.",
    rule="one event = one observation (clone with all its single-vertex edits, an Equal pair/triple, a Bound, a Bound-method tuple, a Reverse, an Orientation); non-trivial = at least one vertex edit / non-empty bound / orientation != 0 / all Equal and Bound-method events; distinct = distinct event text",
    assumptions=["a slice's backing array is identified by its data pointer (sub-slices of one array would need offsets; Clone never sub-slices)"],
    trusted_base=["TLC 2026.09.04", "CommunityModules Json/IOUtils", "unsafe.SliceData"],
)

# ---- C20 -------------------------------------------------------------------------------------------


def run_c20(ctx):
    ctx.mc("GenericMC", "GenericMC.cfg", workers=4, note="dispatch table total over the 22 entry points; sum/min laws associative under nesting")
    cases = ctx.tlcgen("WkbGen", "WkbGen.cfg", workers=4)
    shards = ctx.gen("genshapes", cases=cases)
    ctx.validate("Generic_Trace", shards, stage="replay-of-TLC-shape-set")
    shards = ctx.gen("genrandom")
    ctx.validate("Generic_Trace", shards, stage="random-degenerate-shapes")
    ctx.exhaustive = True
    ctx.notes.append("exhaustive part: the 534-shape bounded set (nine kinds + nil, empty members, collections to depth 2) x 22 entry points")


def _rings(g):
    t = g.get("t")
    if t == "Ring":
        yield g["c"]
    elif t == "Polygon":
        for r in g["c"]:
            yield r
    elif t == "MultiPolygon":
        for p in g["c"]:
            for r in p:
                yield r
    elif t == "Collection":
        for m in g["g"]:
            for r in _rings(m):
                yield r


def sig_c20(ev):
    s = sig_default(ev)
    if ev.get("k") == "panic" and ev.get("fn") == "smartclip.Geometry" and str(ev.get("site", "")).endswith("sortableEndpoints).Less"):
        # recorded finding: an unclosed ring of two vertices, one of them inside the box
        if any(len(r) == 2 for r in _rings(ev.get("in", {}))):
            return "panic:smartclip.Geometry@sortableEndpoints.Less:two-vertex-open-ring"
    return s


PLANS["C20"] = dict(
    run=run_c20, signature=sig_c20,
    technique="TLA+ dispatch table and collection laws over result values; TLC emits the bounded shape set, the harness calls every generic entry point, its kind-specific counterpart and the members, and TLC validates totality, agreement, the collection law and read-only-ness per event",
    level_text="For every shape of the TLC-generated bounded set (nine kinds + nil interface, nil/empty slices, zero-ring polygons in multipolygons, zero-vertex rings in polygons, one-vertex lines, collections nested to depth 2) and seeded rectilinear degenerate-rich shapes, each of 22 generic entry points (Clone, Round, planar Area/CentroidArea/Length/DistanceFrom(WithIndex), geo Area/Length/LengthHaversine, clip, smartclip, project, three simplifiers, tilecover, wkb/ewkb/wkt Marshal, geojson geometry and feature) is called under recover; TLC requires: no panic, result = the kind-specific function's result, a collection's result = the law of the table applied to its members' results (map / sum / min / filter-unwrap / union), and the argument unchanged for the read-only entry points. Read-only entry points receive a copy whose every slice has spare capacity filled with sentinels: the argument and the sentinels must be untouched (clip.Geometry on a MultiPoint counts as read-only, as documented). Seeded multi-part geometries pair a zig-zag part (a simplifier keeps everything) with a straight part full of redundant vertices: parts must not influence each other. Seeded collections also hold nil members (skipped by every entry point). The generic clip appears twice in the table: against a box that cuts the shapes and against one that holds all of them (nothing to cut, and still the typed answer: empty members dropped). Both distance-from entries are also asked from off-grid points inside the shapes' bounds (squared distance rounded down: monotone, so the minimum over members still is the collection's value). New entry Equal.view (a value against a shorter view of the same array). Collection law for tilecover: a member whose own result is an error makes the collection's result an error.",
    level_note="The 'programs' half of the quantifier (every type switch in the source names all nine kinds) is a static property of source text and is not decided here; a switch that misses a kind is seen only through an entry point in the table. Float-valued results that are not exact on the integer lattice (geodesic measures, diagonal lengths) are compared for generic = typed by bit pattern but take no part in the arithmetic laws. Trusted: TLC, Json module, sha1 for byte/text results.",
    rule="one event = one entry point applied to one shape (generic result, typed result, member results, argument after the call); non-trivial = non-nil shape; distinct = distinct event text",
    assumptions=["panics are recovered and recorded with the innermost orb function on the stack as the site"],
    trusted_base=["TLC 2026.09.04", "CommunityModules Json/IOUtils", "crypto/sha1"],
)

# ---- C13 -------------------------------------------------------------------------------------------


def run_c13(ctx):
    ctx.mc("TileAlgebraMC", "TileAlgebraMC_%s.cfg" % ctx.tier, note="ancestor-based algebra consistent for every tile to zoom 4 (5) and every pair to zoom 3 (4)")
    shards = ctx.gen("tile")
    ctx.validate("Tile_Trace", shards)
    ctx.exhaustive = True
    ctx.notes.append("exhaustive part: every tile to zoom 5 (quick) / 8 (thorough), every pair to zoom 3 / 4")


PLANS["C13"] = dict(
    run=run_c13, signature=sig_default,
    technique="TLA+ tile algebra defined from the ancestor relation; TLC checks its laws on all small tiles/pairs and recomputes every recorded result of the real maptile functions from it; float parts judged on IEEE ranks / bit ids",
    level_text="TLC checks the algebra (children, parent, containment = ancestor, shared parent = deepest common ancestor, range = descendant corners, quad digits injective and invertible) for every tile to zoom 4 (5) and every pair to zoom 3 (4), then recomputes from it every recorded result of Valid, Quadkey/FromQuadkey, Parent, Children, Siblings, Range, ChildrenInZoomRange, Contains, SharedParent for every tile to zoom 5 (8), every pair to zoom 3 (4) and seeded tiles to zoom 30 with adversarial bit patterns (high bits, x and y differing at different levels). For points over lon [-180,180] incl. +-180, the clamp latitudes, poles and tile-bound corners, TLC requires At to return a valid tile whose bound contains the point (on IEEE ranks) and the clamped row beyond +-85.0511; the centre of every tile maps back to it; neighbouring tiles' shared edges and the children's edges are bit-identical to the parent's. The children of every tile (zoom 31 for zoom 30) and its parent must be valid tiles themselves.",
    level_note="Quadkeys are compared as base-4 digit sequences (the harness splits the uint64). The float parts are relations on ranks/bit ids of the code's own outputs (exp/atan/log are not specified). Trusted: TLC, Json module, rank and bit interning.",
    rule="one event = one tile / pair / point / edge-set observation; all events non-trivial; distinct = distinct event text",
    assumptions=["zoom <= 30 so that coordinates fit TLC's 32-bit integers"],
    trusted_base=["TLC 2026.09.04", "CommunityModules Json/IOUtils", "harness rank/bit interning"],
)

# ---- C14 -------------------------------------------------------------------------------------------


def run_c14(ctx):
    ctx.mc("TileWalkMC", "TileWalkMC_%s.cfg" % ctx.tier, workers=8, timeout=3000,
           note="grid walk of tilecover.line() in exact arithmetic: Must <= walk <= May for every segment between lattice points of a 3x3 tile window, incl. runs along tile edges and through corners")
    ctx.mc_expect_violation("TileWalkMC", "TileWalkMC_bad.cfg", "BadWalkOK", workers=2,
                            note="non-vacuity: stepping only while both crossing parameters are below 1 loses tiles")
    ctx.mc("MergeUp", "MergeUp_%s.cfg" % ctx.tier, timeout=3000, heap="24g",
           note="MergeUp loop with ANY map iteration order = MaxMerge; disjoint, same area, no complete quad left, never above min")
    ctx.mc("TileFillMC", "TileFillMC_%s.cfg" % ctx.tier, workers=L.NCPU, timeout=3000,
           note="polygon(): the walk with its ring record, the choice of scan-line intersections and the pairwise fill, transcribed, covers every tile the boundary passes through or that lies inside and none that lies outside, without error, on every closed lattice triangle of a 3x3 window at 4 units per tile (quick: 1 first vertex in 8)")
    shards = ctx.gen("tilecover")
    ctx.validate("TileCover_Trace", shards)
    # the polygon events once more, exactly: in general position the real cover is the transcription's, tile for tile
    ctx.validate("TileFill_Trace", shards, stage="TileFill_Trace(polygons, exact)")
    ctx.exhaustive = True
    ctx.notes.append("exhaustive part: segments between points of a 13x13 sub-lattice of 3x3 tiles (every 5th pair quick, all thorough); MergeUp on all 65536 zoom-2 sets x 3 min zooms (thorough)")


PLANS["C14"] = dict(
    run=run_c14, signature=sig_default,
    technique="TLA+ exact Must/May tile sets and sample-point polygon predicate in tile-space lattice units, MergeUp as a state machine with nondeterministic map order checked against MaxMerge; traces of the real tilecover functions validated by TLC",
    level_text="TLC explores the MergeUp loop with every possible map iteration order for all 65536 zoom-2 tile sets x min in 0..2 (thorough; 384 structured sets quick) and checks result = MaxMerge, disjointness, equal area, no complete sibling quad left and no tile shallower than min. For real covers the harness places lattice paths and star-shaped polygons (with holes) in tile space at zooms 3..22, inverts them to lon/lat, checks with maptile.Fraction that the code sees the lattice point within 1e-6 tile, and records the cover; TLC requires Must <= cover <= May for lines (exact segment/rectangle tests with a 1/64-tile margin, so either choice at an exact corner crossing is accepted), sample-point and boundary tiles in the cover and the cover inside the bounding box for polygons, the tile itself for points, the union for collections, and MergeUp = MaxMerge on every repetition for tile sets at zoom 2 and 4. Also: polygons of up to 8x8 tiles with a small hole somewhere inside (a hole within one tile row), vertices repeated in a row incl. a doubled closing vertex, windows across the equator (the one tile-row edge with an exact latitude: vertices exactly on a row edge), windows starting at tile (0,0) and whole-world windows at zooms 0..2. Model-checked layer for lines: the grid walk of tilecover.line() transcribed in exact arithmetic satisfies Must <= walk <= May for every segment between lattice points of a 3x3 window. Model-checked layer for polygons: polygon() transcribed (walk with its ring record across segments, scan-line intersections that are no local extremum and whose successor lies in another row, sort, fill between pairs) reports no error and covers exactly what it must on every closed lattice triangle of a 3x3 window at 4 units per tile (4.65 million; quick: one first vertex in eight); the real covers of polygons in general position (no vertex on a tile line, no edge within a unit of a tile corner) must equal the transcription's tile for tile. Also: multipolygons whose members overlap or nest (the cover is the union), tilecover.Bound on the 1/8192 lattice with corners a hair away from tile edges at zooms to 22, MergeUp on a reused map still holding false-valued keys of another zoom, points at zooms 0..2. Every third polygon cover follows covers that failed (an unclosed ring, alone and as a hole: uneven intersections), and every fourth judged shape is covered once more as a member of a collection (bare ring, polygon, multipolygon, next to points, lines and a nested collection) and compared with the union of the member covers. Values without a vertex (empty, not nil) of every kind are covered at zooms 0..3, alone and as members (nothing to cover); MergeUp also runs on every cover at zooms 0 and 1. Every cover is emptied and scribbled on by the harness once it has been read (a later cover must not show it).",
    level_note="Zero-length lines are outside the quantifier and accepted with any cover. The inverse mercator is written out in the harness (orb/internal cannot be imported) and guarded by the Fraction round-trip check; cases that miss are dropped, never judged. MergeUpPartial is not specified by the property and not checked. Trusted: TLC, Json module, the inverse projection + Fraction guard.",
    rule="one event = one real tilecover / MergeUp call; non-trivial = cover of more than one tile (lines, polygons) / all point, collection and merge events; distinct = distinct event text",
    assumptions=["edges are straight in tile space (the code interpolates in tile fractions)", "lattice points are reproduced by maptile.Fraction within 1e-6 tile (checked per point)"],
    trusted_base=["TLC 2026.09.04", "CommunityModules Json/IOUtils", "harness inverse mercator guarded by maptile.Fraction"],
)

# ---- C12 -------------------------------------------------------------------------------------------


def run_c12(ctx):
    ctx.mc("SimplifyMC", "SimplifyMC_%s.cfg" % ctx.tier, timeout=3000,
           note="DP / radial / Visvalingam (every tie-break) transcriptions satisfy subsequence, endpoints, error bound, idempotence, spacing, counts, monotonicity")
    shards = ctx.gen("simplify")
    ctx.validate("Simplify_Trace", shards)
    # sizes: lines and rings of 600 .. 6000 vertices (relations evaluated by the harness)
    shards = ctx.gen("simplifybig", shards=1)
    ctx.validate("Simplify_Trace", shards, stage="long-lines")
    # polygons / multipolygons: every ring goes through the simplifier, collapsed holes / polygons are dropped (in-place
    # compaction, the filter-map of MvtLayer.tla)
    shards = ctx.gen("simppoly")
    ctx.validate("MvtLayer_Trace", shards, stage="polygon-parts-filter-map")
    ctx.exhaustive = True
    ctx.notes.append("exhaustive part: every path of <=4 (quick) / <=5 (thorough) vertices on a 4x4 grid through all three simplifiers")


PLANS["C12"] = dict(
    run=run_c12, signature=sig_default,
    technique="TLA+ relations (subsequence, endpoints, exact rational error bound, spacing, counts, monotonicity) and transcriptions of the three simplifiers; TLC model-checks the transcriptions against the relations and validates traces of the real simplifier calls, with simplifier values reused across calls",
    level_text="TLC checks for every path of <=5 (quick) / <=6 (thorough) vertices on a 3x3 grid and 5 thresholds that the Douglas-Peucker transcription (farthest vertex, strict >) keeps endpoints, stays within the threshold (exact rational point-segment distances), is idempotent and monotone, that the radial scan keeps the spacing, and that Visvalingam under every tie-break respects minimum counts, keep-N and monotonicity. Every path of <=4 (5) vertices on a 4x4 grid and seeded paths to 40 vertices (repeated, collinear, coincident-endpoint vertices), as lines and rings, through the typed and generic entry points, with dyadic thresholds, larger-threshold and second-application runs on REUSED simplifier values, are recorded; TLC evaluates the relations on each event. Polygons and multipolygons of 1..5 parts (parts that collapse, stay, or change, in every order) through Polygon / MultiPolygon / Simplify of all three simplifiers: the result must be the filter-map of the per-part results (spec MvtLayer), i.e. every ring is simplified and exactly the collapsed holes / polygons disappear. Damped zig-zags, spirals and growing zig-zags of 20..49 vertices (the recursion nests linearly); polygon parts that come out with exactly three vertices. Radial also runs with planar.DistanceSquared against the squared threshold on the figure eight times smaller (squared distances below one). Sizes: lines and rings of 600..6000 integer vertices (long straight runs included) go through all three simplifiers; subsequence with the ends kept, the error bound (every input vertex within the threshold of some piece of the result, 1e-9), spacing, minimum counts, keep-N, idempotence and nesting under a larger threshold are evaluated by the harness and the verdict checked by TLC. A third of the generic calls wrap the line or ring two collections deep. One line of 100 000 .. 262 144 vertices per run goes through the same harness-side relations. A third of the line events run as the middle member of a multi-line string between a tiny closed loop and a two-point line (all three members stay, ends kept); keep-N also with N = 0 (the minimum of the kind).",
    level_note="Thresholds are dyadic (a/4) so that t^2 and 2*area thresholds are exact rationals; a vertex at distance exactly t may be kept or dropped. Geodesic distance functions for Radial are not exercised. Trusted: TLC, Json module, integer projection of coordinates.",
    rule="one event = one simplifier call (input, parameters, output, second application, larger threshold); non-trivial = at least one vertex dropped; distinct = distinct event text",
    assumptions=["integer coordinates of magnitude <= 30 so that all squared distances and cross products fit 32 bits"],
    trusted_base=["TLC 2026.09.04", "CommunityModules Json/IOUtils"],
)

# ---- C17 -------------------------------------------------------------------------------------------


def run_c17(ctx):
    ctx.mc("ResampleMC", "ResampleMC_%s.cfg" % ctx.tier, note="cumulative-distance walk = closed form, exactly N points, for every axis-aligned path and N")
    shards = ctx.gen("resample")
    ctx.validate("Resample_Trace", shards)
    ctx.exhaustive = True
    ctx.notes.append("exhaustive part: every path of <=3 (quick) / <=4 (thorough) steps from a 12-step set (axis-aligned, 3-4-5, zero-length) x N in {-1,0,1,2,3,4,5,7,8,13}")


PLANS["C17"] = dict(
    run=run_c17, signature=sig_default,
    technique="TLA+ closed form of evenly spaced arclength positions in exact rational arithmetic and a transcription of the cumulative-distance walk; TLC checks walk = closed form and validates traces of real Resample/ToInterval calls on integer-length paths",
    level_text="TLC checks that the transcription of the cumulative-distance walk (with its pinned last step) returns exactly N points equal to the closed form k*L/(N-1) for every axis-aligned path of <=3 (4) segments of length 0..3 (4) and N to 8 (12). Real calls are recorded for every path of <=3 (4) steps from a set of axis-aligned, Pythagorean and zero-length steps and N in -1..13, for seeded longer paths with N to 25, intervals d = dn/dd (incl. d <= 0, d > L, d | L), an L1 distance function on arbitrary integer paths, nil/empty/one-vertex/all-coincident lines; outputs are projected to the event's exact lattice 1/((N-1)*lcm lengths) and TLC requires equality with the closed form and the edge-case rules. For the great-circle distance functions TLC checks count, bit-identical endpoints and order. Two thirds of the input lines are the head of a longer buffer whose spare capacity holds foreign points. Every other call the line lives in one of two long-lived buffers that held other lines before; two-leg paths are also run sixty times larger (coordinate differences beyond 180 and 360). Vertex-less and one-vertex lines go through every N and d; the very same slice (spare capacity and all) is resampled a second time at another resolution and the first result must stay what it was; the inexact-coordinate family runs at scales 2^-50 .. 2^30. Lines written across the antimeridian with the vertex pair (180, y), (-180, y) under both geodesic functions (every point on a segment of the line). ToInterval is also asked for intervals one float64 above and below total / parts (judged when the caller's own quotient lies on that side of the whole number); a line of fewer than two vertices comes back the value it was (an empty line stays empty, nil stays nil). Mirror-image lines (inexact segment lengths out, the middle vertex repeated, the same lengths back) put points exactly on the repeated vertex: every point within 1e-9 of a segment; geodesic paths of equal lon/lat steps through the middle latitudes with the way to every point measured (k/(N-1) of the whole within 1.5 % of a segment); four goroutines resample at the same time and get what they get alone. Lines that end with the antimeridian pair (180, y), (-180, y) (ends compared bit for bit); sizes: 2^20+1 .. 3 000 000 (2^23) intervals on a short line, lines of 2^20 .. 2^20+3 (2^22+5) segments of arbitrary lengths.",
    level_note="Exact positions only for integer segment lengths (residual > 1e-7 lattice units = 'offlattice' event, rejected). For geo.Distance / DistanceHaversine only count, endpoints and order are judged. Trusted: TLC, Json module, lattice projection, rank interning.",
    rule="one event = one real Resample/ToInterval call; non-trivial = N >= 2 on a line of positive length; distinct = distinct event text",
    assumptions=["segment lengths are integers under the distance function used (by construction of the step set / L1 metric)"],
    trusted_base=["TLC 2026.09.04", "CommunityModules Json/IOUtils", "harness lattice projection"],
)

# ---- C10 -------------------------------------------------------------------------------------------


def run_c10(ctx):
    ctx.mc("PlanarMeasureMC", "PlanarMeasureMC_%s.cfg" % ctx.tier, note="area sign/rotation/translation/closing laws, centroid covariance and convex-in-bound, distance zero iff on segment")
    shards = ctx.gen("planar")
    ctx.validate("PlanarMeasure_Trace", shards)


def sig_c10(ev):
    if ev.get("_alt"):
        return "planar.CentroidArea:collection-without-2d-members-centroid-is-origin"
    return sig_default(ev)


PLANS["C10"] = dict(
    run=run_c10, signature=sig_c10,
    technique="TLA+ exact integer/rational definitions of shoelace area, moments/centroid, point-segment distance and bracketed length; TLC checks their laws on small rings and recomputes every recorded result of the real planar functions",
    level_text="TLC checks on every ring of <=3 (quick) / <=4 (thorough) vertices of a 4x4 grid that the shoelace area negates under reversal and is invariant under rotation, translation and explicit closing, that the centroid is translation-covariant, rotation-invariant and inside the bound of a convex ring, and that the point-segment distance is zero exactly on the segment. For seeded integer geometries TLC recomputes: the doubled area of rings (with rotations, reversals, translations), polygons with holes of any winding, multipolygons and collections (top-dimensional members only); centroids as exact rationals (area-, length- and count-weighted); DistanceFromSegmentSquared; DistanceFrom / WithIndex as the minimum over all boundary segments of every kind incl. query points on the boundary; Length bracketed per segment by integer square roots. DistanceFromWithIndex on multipolygons, multi line strings, polygons and collections of 2..4 parts (query points inside a later part's box): the distance must be the minimum over all parts. Query points strictly inside a bound; areas and centroids are measured on geometries carved out of one coordinate buffer after the other read-only measures have been taken on them. Lengths are also asked of rings, polygons, multipolygons, boxes and mixed / nested collections, and of staircases of 500..5000 unit steps through every kind; distance-from also of multi-lines with segment-less members; areas of small rings of arbitrary floats at +-2^20 against the same ring moved to the origin exactly (relative 1e-9, Area = CentroidArea's area); low-dimensional collection members are heads of longer buffers whose tails must stay untouched. Distances to segments up to 2^21 long from lattice points 2..28 units beside them are compared with exact big-integer arithmetic (relative 1e-9) through DistanceFromSegment, its squared form, DistanceFrom on a line and a ring, and DistanceFromWithIndex; boxes with corners given the other way round have the length of their four sides.",
    level_note="Bounds forced by TLC's 32-bit integers: |v| <= 12 for area/centroid, <= 8 for distances (the property's |v| <= 2^20 range and the general-position 1e-9 clause are not covered). Centroids are compared after rounding to 1/1000, squared distances to 1/10000, lengths to 1/100. Trusted: TLC, Json module, the roundings in the harness.",
    rule="one event = one real planar call on an integer geometry; non-trivial = non-zero area (area events) / all other events; distinct = distinct event text",
    assumptions=["2*area of an integer geometry is exact in float64 (checked per event)"],
    trusted_base=["TLC 2026.09.04", "CommunityModules Json/IOUtils", "harness rounding"],
)

# ---- C16 -------------------------------------------------------------------------------------------


def run_c16(ctx):
    ctx.mc("SmartClipMC", "SmartClipMC.cfg", workers=4, note="aroundBound corner tables: cyclic, mutually inverse, terminate within 7 steps, adjacent positions share a side, turn direction = orientation")
    shards = ctx.gen("smartclip")
    ctx.validate("SmartClip_Trace", shards)
    shards = ctx.gen("smartbig", shards=1)
    ctx.validate("SmartClip_Trace", shards, stage="SmartClip_Trace(sizes)")
    ctx.exhaustive = True
    ctx.notes.append("exhaustive part: every non-degenerate triangle of the 4x4 (5x5) grid x boxes with integer corners x both orientations (a quarter / half of the combinations by a fixed stride)")


def sig_c16(ev):
    if ev.get("_alt"):
        return "smartclip:ring-vertex-on-box-boundary-with-both-edges-entering"
    return sig_default(ev)


PLANS["C16"] = dict(
    run=run_c16, signature=sig_c16,
    technique="TLA+ region predicates (exact even-odd membership on a query lattice, ring shape/winding, open-path closure along the box outline) and the aroundBound corner tables; TLC model-checks the tables and validates traces of the real smartclip calls",
    level_text="TLC checks the corner-walk tables of aroundBound (cyclic, inverse, terminating, adjacent, turning as requested). For triangles of a 4x4 (5x5) grid x boxes x both orientations, and seeded simple star-shaped rings of 3..12 vertices with vertices on box edges and corners, polygons with an interior hole, two-member multipolygons, through Ring/Polygon/MultiPolygon/Geometry, TLC requires: every output ring closed and inside the closed box, outers wound as requested and holes opposite (zero-area two-point rings from corner touches allowed), a region wholly inside returned unchanged, one wholly outside yielding nothing, and - whenever the input boundary meets the open box - q in output iff q in input for every quarter-step lattice point strictly inside the box and off all boundaries. Open sub-paths of such rings cut at the box are judged against the path closed along the box outline in the requested direction. Comb-shaped polygons (a spine outside the box, 2..3 teeth reaching in, so the outer ring is cut into several pieces) with half-unit holes inside the teeth, through Polygon, Geometry and MultiPolygon; unit-square holes anywhere on the grid. Crossing rings handed over without their closing vertex (closed implicitly when an endpoint is in the box), polygons passed as members of a Collection, holes whose first vertex is level with an odd number of outer-ring vertices, unclosed triangles in the exhaustive part. The recorded finding's input class is the narrowed one (TouchFailProne: by side and direction of the incoming edge, see known_findings.json); elsewhere the region predicate is demanded of touching vertices too. Nested thick arches with a tooth stand on each side of the box in both windings (seven pieces: Go's sort leaves the insertion-sort regime). The generic entry point must answer nil when nothing remains. Every call sees the figure at its own size or scaled exactly by 2^30, 2^-20 or 2^44. Rectangles with one or two slits cut in from one side (ending inside the box or running through it) are handed over through per-axis strictly increasing tables - box from -2 to 3 and -1 to 2, slit walls 2e-17 apart next to zero, subnormal, or a hair apart - which is exact for figures with axis-parallel edges (middle mapped to middle, because aroundBound inserts the midpoint of a side); TLC judges the lattice figure. Sizes: combs of 300 .. 33 000 (66 000 thorough) teeth through the top of the box, ending inside it or running through (more than 2^15 and 2^16 pieces in one call), judged by the harness (polygon count, no holes, winding, vertices in the box, exact area, sample points in every 1/200th slit and tooth) with the verdict checked by TLC. A band across the box with a triangular hole that cuts a corner off the box without a vertex in it (all corners, both windings, every entry point); open two-vertex paths from outside to outside among the open-path events. Multi-polygons of one member that crosses a side of the box (with a hole crossing it too) and two or three members wholly inside, with and without holes, in any order, turned to all four sides.",
    level_note="Rings that surround the box or only touch it are outside the property's domain (the spec evaluates 'boundary meets the open box' itself). Inputs are simple by construction (strictly increasing exact angle about an interior point). Lattice 1/60, residual > 1e-7 = 'offlattice'. Trusted: TLC, Json module, lattice projection, clip.LineString(OpenBound) to cut the open sub-paths.",
    rule="one event = one real smartclip call; non-trivial = non-empty output different from the input; distinct = distinct event text",
    assumptions=["input rings are simple and correctly wound (constructed, not checked by the code)"],
    trusted_base=["TLC 2026.09.04", "CommunityModules Json/IOUtils", "harness lattice projection"],
)

# ---- C04 -------------------------------------------------------------------------------------------


def run_c04(ctx):
    ctx.mc("WktMC", "WktMC.cfg", note="token grammar parses the printed tokens of every bounded shape back to the canonical value, also with white space inserted at one or two admissible gaps; typed acceptance table")
    cases = ctx.tlcgen("WktGen", "WktGen.cfg", workers=4)
    shards = ctx.gen("wkt", cases=cases)
    ctx.validate("Wkt_Trace", shards)


PLANS["C04"] = dict(
    run=run_c04, signature=sig_default,
    technique="TLA+ token-level printer and recursive-descent grammar of WKT; TLC checks Parse(Respell(Print(g))) = Canon(g) on a bounded shape set, emits re-spelling patterns, and validates the real text token for token and every parse result",
    level_text="TLC checks on the 534-shape bounded set (nine kinds, empty members, nested collections) that the grammar parses the printed token sequence back to the canonical value, also with white space inserted at any one or two admissible gaps, and that the typed acceptance table is exact. For seeded geometries with finite coordinates over the full float64 range (exponent forms below 1e-4 and from 1e21, 17-digit mantissas, subnormals, -0; collections nested to depth 3 with empty members) the harness tokenises the text the real wkt.MarshalString produced (numbers -> strconv.ParseFloat -> bit id); TLC requires the tokens to equal the specified printing exactly (so shortest-representation printing is checked through id equality), wkt.Unmarshal to return the canonical value, and each of the seven typed parse functions to accept exactly its own kind and report incorrect-geometry otherwise. 819 TLC-generated re-spelling patterns (gap positions x keyword case class x kind of white space) are applied to real texts and must parse to the same value. Coordinates also come from the float32-exact values (widened single-precision numbers, 2^24 .. 2^63 plus small offsets, MaxFloat32, float32 subnormals); collections are nested up to 40 levels deep. The seven typed parse functions also see every re-spelled text (own kind accepted, others incorrect-geometry). What Marshal returned is verified after the next call and then overwritten, as a caller may. Every third event first parses a text the parsers refuse (malformed members in the middle of collections); coordinates include decimals of up to seven places and the float64 next to them on either side.",
    level_note="That a decimal string denotes a given float64 is decided by strconv.ParseFloat + bit interning in the harness (TLC sees id equality). Polygons / multi-line strings containing a zero-vertex part print '()' which is not WKT and are not generated; NaN and infinities are outside the quantifier (finite coordinates). Trusted: TLC, Json module, strconv, the tokeniser.",
    rule="one event = one geometry (text tokens, parse result, typed results) or one re-spelled text; non-trivial = non-nil geometry; distinct = distinct event text",
    assumptions=["white space is never inserted between the two numbers of a coordinate"],
    trusted_base=["TLC 2026.09.04", "CommunityModules Json/IOUtils", "strconv.ParseFloat", "harness tokeniser"],
)

# ---- C02 -------------------------------------------------------------------------------------------


def run_c02(ctx):
    ctx.mc("GeoJsonMC", "GeoJsonMC.cfg", workers=8, note="documents of the bounded shape set are well-formed RFC 7946; ring/bound = polygon document; empty = null; Norm idempotent")
    shards = ctx.gen("geojson")
    ctx.validate("GeoJson_Trace", shards)


PLANS["C02"] = dict(
    run=run_c02, signature=sig_default,
    technique="TLA+ abstract JSON documents (GeomDoc / FeatureDoc / FCDoc, RFC 7946 shape predicate, Norm); TLC checks the document model on a bounded shape set and validates the documents parsed out of the real JSON bytes and the values decoded back through JSON and BSON",
    level_text="TLC checks on the 534-shape bounded set that the specified document of every geometry is well-formed RFC 7946 (type names the kind, coordinates nested exactly as deep as the kind requires, collections use geometries), that a ring or bound gives the polygon's document and an empty collection null. For seeded geometries (nine kinds, nested collections incl. empty ones, coordinates over the full finite float64 range), features (id absent / string / number, properties over null, bool, number, string, array, object, optional bbox) and feature collections with foreign members, the harness parses the produced JSON generically (encoding/json, numbers -> strconv -> bit id); TLC requires the document to equal the specified one exactly, the values decoded through UnmarshalGeometry / UnmarshalFeature / UnmarshalFeatureCollection and through BSON to equal the normal form of the input, and the re-marshalled JSON to be byte-identical. The same bytes are also decoded into Geometry / Feature / FeatureCollection values that already hold the results of earlier events (a decoding loop reusing one variable) and must give the same value; json.Marshal and a Geometry literal around the value must give the same bytes as MarshalJSON / bson.Marshal of NewGeometry; the bytes returned for the previous event must still be what they were. Integer feature ids, also beyond 2^53, must come back from BSON as the same integer (bsonid events). The typed helper values (geojson.Point .. MultiPolygon) live across events as receivers: each decodes the next document of its kind, must return it and leave what it returned before intact; features and collections are also handed to both encoders by value; a long-lived Geometry value gets its Coordinates field reassigned from event to event. Coordinates include values widened from float32. Feature ids at 2^53, 2^62, +-2^63 and 2^64; one long-lived Geometry takes JSON and BSON documents in turn; foreign-member names with '.', '$', their full-width twins and names that mean something elsewhere (_id, id, geometry, properties, coordinates); empty non-nil ExtraMembers. Everything the marshal calls of one event returned (also the null document marshalled by itself) is verified unchanged at the next event and then overwritten, as a caller may. Property names that collide under common 32-bit hashes (FNV-1, FNV-1a, CRC-32, Adler-32, x31, x33; equal length, found by a birthday search at start-up) appear together and alone across events; bboxes at the origin, of no extent, with six numbers. Decoded features are written into by the harness once they have been read (no later decode shows it); string ids of 24 hex digits in either case; boxes equal as values and differing in the sign of a zero in consecutive events; the value NewGeometry made is overwritten after marshalling.",
    level_note="That a decimal string denotes a float64 is decided by strconv + bit interning in the harness. Geometries containing nil slices marshal to \"coordinates\": null and are not generated (the quantifier does not name them); a bare top-level empty collection is not a geometry document and is only exercised inside features. Foreign members named exactly type / bbox / features are excluded by the quantifier (other spellings such as Type, Features are generated). The six helper types are exercised in C05. Trusted: TLC, Json module, encoding/json and bson as lenses on the bytes, strconv.",
    rule="one event = one geometry / feature / feature collection with its JSON document and both decoded values; all events non-trivial; distinct = distinct event text",
    assumptions=["encoding/json (UseNumber) and go.mongodb.org bson read the produced bytes faithfully"],
    trusted_base=["TLC 2026.09.04", "CommunityModules Json/IOUtils", "encoding/json", "bson", "strconv.ParseFloat"],
)

# ---- C05 -------------------------------------------------------------------------------------------


def run_c05(ctx):
    ctx.mc("WkbMC", "WkbMC_quick.cfg", workers=4, note="reference WKB decoder: inverts the encoder, rejects every truncation (the oracle used on hostile bytes)")
    ctx.mc("MvtMC", "MvtMC_quick.cfg", note="reference MVT command decoder total on every short word sequence")
    for m in ("wkb", "wkt", "mvt"):
        cases = ctx.tlcgen("DecGen", "DecGen_%s_%s.cfg" % (m, ctx.tier), workers=8, outname="decgen_%s.cases" % m)
        shards = ctx.gen("decenum", cases=cases, name="decenum_" + m)
        ctx.validate("Decoders_Trace", shards, stage="enumerated-" + m)
    shards = ctx.gen("decmut")
    ctx.validate("Decoders_Trace", shards, stage="tiles-and-mutations")
    ctx.exhaustive = True
    ctx.notes.append("exhaustive part: 2660 WKB headers x every truncation point; every WKT sentence of <=4 (quick) / <=5 (thorough) tokens over a 16-token alphabet; every MVT command-word sequence of <=4 words over 14 words x 3 geometry types; every 0-1 byte tile and every (7th) 2-byte tile")


def sig_c05(ev):
    s = sig_default(ev)
    if ev.get("k") == "panic" and str(ev.get("origin", "")).startswith("go.mongodb.org/mongo-driver/bson/bsonrw.(*valueReader)") \
            and (("geojson.(" in str(ev.get("site", "")) and str(ev.get("site", "")).endswith("UnmarshalBSON"))
                 or (ev.get("site") == "unknown" and str(ev.get("fn", "")).startswith("bson"))):
        # site "unknown": bson.Unmarshal copies the raw value (and panics on a negative length word) before it ever
        # calls the orb UnmarshalBSON method, so no orb frame is on the stack; same third-party defect, same finding
        return "panic:geojson BSON unmarshallers<-go.mongodb.org/mongo-driver/bson/bsonrw.(*valueReader)"
    return s


PLANS["C05"] = dict(
    run=run_c05, signature=sig_c05,
    technique="TLA+ reference decoders of the codec specs as outcome oracles plus an allocation bound; TLC enumerates the finite hostile-input spaces named by the property for replay, and judges every recorded decoder outcome",
    level_text="TLC emits exactly the finite spaces the property names - every WKB header (order byte x type word x boundary count x payload shape), every WKT sentence of <=4 (5) tokens over a 16-token alphabet, every MVT command-word sequence of <=4 words over a 14-word alphabet (incl. MoveTo, LineTo and ClosePath words claiming millions of points) - and the harness runs every decoder entry point on each (WKB/EWKB byte, stream, scanner x 10 destinations incl. hex and SRID-prefix framing; wkt.Unmarshal and the 7 typed parsers; mvt.Unmarshal), on every truncation of every header, on all 0..2-byte tiles, and on seeded structure-aware mutations (truncate, bit flip, count inflation, splice, nesting, duplication, GeoJSON member edits) of valid WKB/EWKB, WKT, MVT, GeoJSON and BSON encodings. Each call runs under recover, a watchdog and a TotalAlloc delta. TLC requires: a value or an error (never a panic or hang), allocation <= 4096*len + 8 MB, and - where the reference decoder of the codec spec fixes the meaning - agreement: bytes the WKB grammar accepts decode on every path to one and the same value with stable re-encoding, properly-headed but truncated / over-counted bytes fail on every path, WKT sentences the grammar accepts and MVT command streams the state machine accepts decode to exactly the specified value. Also: well-formed BSON documents whose members have the wrong kind (number, null, document, binary, array, boolean) at both levels for every BSON entry point; one layer of 2000 keys x 3000 features (allocation must follow the input size, not keys x features); gzipped tiles whose trailer claims 0 .. 4 GB of content and gzip streams with seeded damage. Long-lived scanners see a well-formed SRID-prefixed row before every input. Blank and almost blank values of 0..12 bytes go to the scanners, WKT parsers and JSON entry points; 99..1000 genuine members stand under counts of n+1 .. 2^32-1 for every container kind, both byte orders, alone and inside multi-polygons / collections (allocation follows the bytes that are there, also once the preallocation cap is used up); extended WKT spellings (SRID=... with and without ';', Z / M suffixes), complete and cut short, also as collection members. Every container kind x member kind x member count 0 / 1 x 0..24 bytes behind the member's header; gzip in gzip (in gzip) around 64 KB .. 16 MB (32 MB thorough) of zeros; protobuf wire shapes (every wire type, groups, unknown fields, lengths and varints at the ends of their ranges, over-long varints), also inside a layer; the exported Unmarshal methods of the four generated vectortile message types count as decoders. Members of multi-geometries also in the other byte order and with stray bits (0x10, 0x20, the EWKB flag) in their type word; endless and just-ending varints in every numeric field of the tile format, correctly framed as tile > layer > feature / value; values encoded as text two and three times over (\\x, 0x, none).",
    level_note="Coverage-guided fuzzing is a different technique and not used. Byte-level garbage inside JSON / BSON / protobuf framing is handled by encoding/json, bson and protoscan (not orb code): for those inputs only value-or-error and the allocation bound are demanded. Allocation is measured single-threaded with runtime.MemStats.TotalAlloc. Trusted: TLC, Json module, runtime.MemStats, recover-based panic capture.",
    rule="one event = one input with the outcome of every decoder run on it and the bytes allocated; non-trivial = some decoder returned a value (WKB, WKT, MVT enumerations) / all raw events; distinct = distinct event text",
    assumptions=["a hang is detected by the 30 s watchdog of the harness", "fatal runtime errors (out of memory, stack exhaustion) kill the harness and are reported as a crash violation"],
    trusted_base=["TLC 2026.09.04", "CommunityModules Json/IOUtils", "runtime.MemStats", "vectortile.Tile.Marshal to wrap command words into a tile"],
)

# ---- C15 -------------------------------------------------------------------------------------------


def run_c15(ctx):
    ctx.mc("ProjectMC", "ProjectMC.cfg", workers=8, note="MapVertices visits every vertex once, in order, preserving kind and nesting on the bounded shape set")
    shards = ctx.gen("project")
    ctx.validate("Project_Trace", shards)


PLANS["C15"] = dict(
    run=run_c15, signature=sig_default,
    technique="TLA+ MapVertices law with a tagging point function, and contracts on integer observations for the numeric projections; TLC checks the law on the bounded shape set and validates traces of project.* and mvt ProjectToWGS84/ProjectToTile",
    level_text="TLC checks on the 534-shape bounded set that MapVertices preserves kind and nesting and numbers the visited vertices 1..n in order. Seeded shapes of every kind (nested collections, bounds) are projected by project.Geometry and the typed helpers with a tagging function (k-th call returns <1000-x, k>: it reverses an axis); TLC requires the image to be exactly MapVertices of the input and the number of calls to be the number of vertices (a bound: the box of its two projected corners). Integer tile coordinates in [-extent, 2*extent) incl. all four borders, for random tiles at zooms 0..22, power-of-two and other extents, single layers and Layers values mixing extents, are projected to WGS84 and back: TLC requires the same integers. Lon/lat <-> mercator residuals on a grid and seeded points must stay under 1e-9 degree and 1 mm; anchors (180 deg = 20037508 m, clamps) must match. Half of the tile round trips run on Layer values that were projected before for another extent or another tile (holding other features at the time). The twelve vertices of a tile round trip travel as a multipoint, a line, two lines, a polygon with a hole or two polygons, and a third of them start at the tile's own corner or edges (0,0), (0,y), (x,0). Parts of 4095..10 007 vertices go through project.Geometry in every kind that holds a long part (every vertex mapped in its place, one call per vertex); layers hold geometry-less features before and after the judged one; rows of a tile's buffer beyond the world's edge are judged up to the documented clamp (0.285 of the world's height), with top- and bottom-row tiles of zooms 2..5 made frequent. The way back to tile coordinates also goes through a layer that has just projected something else to the same tile; boxes with corners swapped; feature geometries include single points, boxes and a collection of point + box + ring + line (kinds that are not slices). Layers of three tiles that differ in one bit of the column or of the row (zooms 9..30, both halves of the world) are projected to WGS84 one after the other and back in another order.",
    level_note="exp / atan / log cannot be specified in TLA+: for the two real-valued inverses TLC only judges a recorded residual against the tolerance (a contract on the code's own output, not an independent oracle). Tile rows outside the mercator square (beyond the poles) are clamped by design and excluded. Trusted: TLC, Json module, integer rounding of observations.",
    rule="one event = one projected shape (in/out trees, call count), one layer's tile coordinates before/after the round trip, one residual observation or one anchor; all events non-trivial; distinct = distinct event text",
    assumptions=["tile coordinates are exact integers in float64"],
    trusted_base=["TLC 2026.09.04", "CommunityModules Json/IOUtils"],
)

# ---- C18 -------------------------------------------------------------------------------------------


def run_c18(ctx):
    ctx.mc("GeoSphereMC", "GeoSphereMC.cfg", workers=4, note="ringArea index schedule (lo/mi/hi with implicit closing) = cyclic triples, n = 3..14, closed and unclosed")
    shards = ctx.gen("geo")
    ctx.validate("GeoSphere_Trace", shards)


PLANS["C18"] = dict(
    run=run_c18, signature=sig_default,
    technique="TLA+ relations over integer observations of the spherical functions, rational-sine closed forms for box areas, and a model check of the ring-area index schedule; TLC validates traces of the real geo functions",
    level_text="TLC model-checks the index schedule of geo.ringArea (lo/mi/hi rewiring with implicit closing) against the cyclic-triple sum for rings of 3..14 stored vertices, closed and unclosed. For seeded and gridded point pairs (incl. pairs straddling the antimeridian in both orders and close pairs below 80 degrees), bearings, distances to 5000 km, lines and rings of 3..12 integer-degree vertices, TLC requires: both distances symmetric bit for bit and at most half the circumference; fast vs haversine within 1e-5 under 10 km; PointAtBearingAndDistance landing within 1 mm of the requested haversine distance; the midpoint equidistant within 1 mm; Length = sum of segment distances; ring area unchanged (1e-6) by every rotation, the reversal (negated), explicit closing and by living in a shared coordinate buffer (which must not be written); SignedArea's sign = the winding computed from the integer coordinates; polygon = |outer| - sum |holes| for holes of either winding, multi = sum; and the area of every box whose parallels are 0, +-30, +-90 degrees = 710 011 km^2 x width x (sin top - sin bottom) in integer arithmetic. Length as the sum of segment distances is also required of rings (stored segments only), multi-lines, polygons and nested collections; the area of a collection = the sum over polygons, bare rings, boxes, nested collections and members without area. Bearings include the exact cardinal ones from latitudes 70..89 degrees (the way leads over a pole); polygons have one to three holes of either winding; the length of a box is the sum of its four side distances; the deprecated spelling LengthHaversign must equal LengthHaversine. Ringless members anywhere in a multipolygon; lines that start next to +-180 degrees and wander across the antimeridian (length = sum of the segment distances, which fold). Bearing-and-distance also for 2 mm .. 40 m.",
    level_note="Trigonometric closed forms at arbitrary latitudes cannot be written in TLA+: apart from the rational-sine boxes and the winding sign, the checks are relations between outputs of the code (a contract, not an independent oracle). Trusted: TLC, Json module, the fixed-point roundings in the harness.",
    rule="one event = one observation tuple (distance pair, bearing landing, midpoint, length, box, ring with its variants); all events non-trivial; distinct = distinct event text",
    assumptions=["float64 arithmetic error is far below the tolerances (1 mm, 1e-5, 1e-6 relative)"],
    trusted_base=["TLC 2026.09.04", "CommunityModules Json/IOUtils"],
)
