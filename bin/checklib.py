# Driver library for /verif/bin/check: builds the Go harness from /repo's working tree, runs TLC
# (model checking, case generation, trace validation), classifies rejected events against
# known_findings.json and writes the evidence file.  Standard library only.
import hashlib
import json
import os
import re
import shutil
import subprocess
import sys
import time
from concurrent.futures import ThreadPoolExecutor

VERIF = os.path.dirname(os.path.dirname(os.path.abspath(__file__)))
SPEC = os.path.join(VERIF, "spec")
HARNESS = os.path.join(VERIF, "harness")
REPO = os.environ.get("VERIF_REPO", "/repo")
try:
    with open(os.path.join(os.path.dirname(os.path.dirname(os.path.abspath(__file__))), "spec", "expected_kinds.json")) as _f:
        EXPECTED_KINDS = json.load(_f)
except (OSError, ValueError):
    EXPECTED_KINDS = {}
TLA_CP = "/opt/veriftools/tla/tla2tools.jar:/opt/veriftools/tla/CommunityModules-deps.jar"
NCPU = os.cpu_count() or 4


class CheckError(Exception):
    """Machinery failure (not a verdict about the code): exit 2."""


def goenv():
    env = dict(os.environ)
    env.update(GOFLAGS="-mod=mod", GOPROXY="off", GOSUMDB="off", GOTOOLCHAIN="local", CGO_ENABLED=env.get("CGO_ENABLED", "1"))
    return env


class Ctx:
    def __init__(self, pid, tier, seed):
        self.pid = pid
        self.tier = tier
        self.seed = seed
        self.t0 = time.time()
        self.work = os.path.join(VERIF, ".work", "%s.%d" % (pid, os.getpid()))
        shutil.rmtree(self.work, ignore_errors=True)
        os.makedirs(self.work)
        self.states = 0
        self.transitions = 0
        self.mc_runs = []          # per-run notes for the evidence file
        self.events = 0            # real-code events judged by TLC
        self.accepted = 0
        self.nontrivial = set()    # hashes of distinct non-trivial events
        self.samples = []
        self.rejected = []         # (stage, shard, index, event)
        self.replayed = 0          # TLC-generated cases replayed into the code
        self.exhaustive = False
        self.notes = []
        self.stage_info = []
        self.event_kinds = {}   # family -> {kind: events written}
        self.missing_kinds = []
        self.bin = None

    def thorough(self):
        return self.tier == "thorough"

    def pick(self, q, t):
        return t if self.thorough() else q

    # ---- build ---------------------------------------------------------------------------------
    def build(self, race=False):
        """Build the harness against /repo's current working tree with the verif tag."""
        out = os.path.join(self.work, "orbtrace-race" if race else "orbtrace")
        cmd = ["go", "build", "-tags", "verif"] + (["-race"] if race else []) + ["-o", out, "./cmd/orbtrace"]
        env = goenv()
        if os.environ.get("VERIF_COVERDIR"):
            # measurement only (bin/stmtcoverage): which statements of paulmach/orb the harness families execute
            # (the main package has to be among the instrumented ones, or no data is written at all)
            pk = subprocess.run(["go", "list", "-deps", "-tags", "verif", "./cmd/orbtrace"], cwd=HARNESS, env=env,
                                stdout=subprocess.PIPE, text=True).stdout.split()
            cmd[2:2] = ["-cover", "-coverpkg=" + ",".join([q for q in pk if q.startswith("github.com/paulmach/orb")]
                                                          + ["verifharness/cmd/orbtrace"])]
        src = HARNESS
        if REPO != "/repo":
            # experiments only (bin/seedcheck with SEED_SCRATCH=1): build a private copy of the harness against a
            # scratch worktree, so that /repo is left alone while a background run is using it
            src = os.path.join(self.work, "harness")
            if not os.path.isdir(src):
                shutil.copytree(HARNESS, src)
                subprocess.run(["go", "mod", "edit", "-replace", "github.com/paulmach/orb=" + REPO], cwd=src, env=env, check=True)
        shutil.copyfile(os.path.join(REPO, "go.sum"), os.path.join(src, "go.sum"))
        p = subprocess.run(cmd, cwd=src, env=env, stdout=subprocess.PIPE, stderr=subprocess.STDOUT, text=True)
        if p.returncode != 0:
            raise CheckError("harness build failed:\n" + p.stdout[-4000:])
        if not race:
            self.bin = out
        return out

    # ---- TLC -----------------------------------------------------------------------------------
    def tlc(self, module, cfg, workers=1, env=None, timeout=1800, heap="3g", extra=None, tag=None):
        tag = tag or (module + "." + os.path.splitext(cfg)[0])
        meta = os.path.join(self.work, "meta." + re.sub(r"[^A-Za-z0-9_.-]", "_", tag) + "." + str(time.time_ns()))
        cmd = ["java", "-XX:+UseParallelGC", "-XX:ParallelGCThreads=%d" % (2 if workers == 1 else min(8, workers)),
               "-Xmx" + heap, "-Xss64m", "-cp", TLA_CP, "tlc2.TLC", "-workers", str(workers), "-metadir", meta,
               "-noGenerateSpecTE", "-config", cfg] + (extra or []) + [module + ".tla"]
        e = dict(os.environ)
        e.pop("JAVA_TOOL_OPTIONS", None)
        if env:
            e.update(env)
        try:
            p = subprocess.run(cmd, cwd=SPEC, env=e, stdout=subprocess.PIPE, stderr=subprocess.STDOUT, text=True, timeout=timeout)
        except subprocess.TimeoutExpired:
            raise CheckError("TLC timed out after %ds: %s %s" % (timeout, module, cfg))
        finally:
            shutil.rmtree(meta, ignore_errors=True)
        out = p.stdout
        st = None
        for m in re.finditer(r"(\d+) states generated, (\d+) distinct states found, (\d+) states left on queue", out):
            st = (int(m.group(1)), int(m.group(2)), int(m.group(3)))
        return p.returncode, out, st

    def mc(self, module, cfg, workers=NCPU, timeout=3600, heap="12g", note=""):
        """Model-check a design spec. The model does not depend on /repo: a failure here is a broken spec."""
        t = time.time()
        rc, out, st = self.tlc(module, cfg, workers=workers, timeout=timeout, heap=heap)
        if rc != 0 or st is None or "No error has been found" not in out:
            raise CheckError("model check %s/%s did not pass (rc=%d):\n%s" % (module, cfg, rc, tail(out)))
        self.states += st[1]
        self.transitions += st[0]
        self.mc_runs.append({"module": module, "cfg": cfg, "distinct_states": st[1], "states_generated": st[0],
                             "wall_s": round(time.time() - t, 1), "note": note})
        return st

    def mc_expect_violation(self, module, cfg, prop, workers=NCPU, timeout=1800, heap="8g", note=""):
        """Non-vacuity witness: this config MUST violate `prop` (e.g. the shared-scratch design)."""
        rc, out, st = self.tlc(module, cfg, workers=workers, timeout=timeout, heap=heap)
        if ("%s is violated" % prop) not in out and ("property %s" % prop) not in out:
            raise CheckError("non-vacuity config %s/%s did not violate %s:\n%s" % (module, cfg, prop, tail(out)))
        self.mc_runs.append({"module": module, "cfg": cfg, "expected_violation": prop, "note": note})

    def tlcgen(self, module, cfg, workers=NCPU, timeout=1800, heap="8g", outname=None, ok_errors=()):
        """Run a generator spec whose invariant/constraint prints one JSON case per line; returns the path of
        a file with the sorted, de-duplicated cases (one JSON document per line)."""
        rc, out, st = self.tlc(module, cfg, workers=workers, timeout=timeout, heap=heap)
        if st is None or ("Error:" in out and not any(k in out for k in ok_errors)):
            raise CheckError("generator %s/%s failed (rc=%d):\n%s" % (module, cfg, rc, tail(out)))
        cases = set()
        for line in out.splitlines():
            line = line.strip()
            if line.startswith('"{') or line.startswith('"['):
                try:
                    cases.add(json.loads(line))   # TLA+ string literal == JSON string literal here
                except Exception:
                    raise CheckError("unparseable generator line: " + line[:200])
        if not cases:
            raise CheckError("generator %s/%s produced no cases" % (module, cfg))
        path = os.path.join(self.work, outname or (module + "." + cfg + ".cases"))
        with open(path, "w") as f:
            for c in sorted(cases):
                f.write(c + "\n")
        self.states += st[1]
        self.transitions += st[0]
        self.replayed += len(cases)
        self.mc_runs.append({"module": module, "cfg": cfg, "generated_cases": len(cases), "distinct_states": st[1]})
        return path

    # ---- harness -------------------------------------------------------------------------------
    def gen(self, family, shards=NCPU, args=None, cases=None, binary=None, timeout=3600, env=None, name=None):
        """Run a harness family; returns the non-empty shard files."""
        out = os.path.join(self.work, (name or family) + ".tr")
        shutil.rmtree(out, ignore_errors=True)
        os.makedirs(out)
        cmd = [binary or self.bin, family, "-tier", self.tier, "-seed", str(self.seed), "-shards", str(shards), "-out", out]
        if cases:
            cmd += ["-cases", cases]
        cmd += (args or [])
        e = goenv()
        if env:
            e.update(env)
        if os.environ.get("VERIF_COVERDIR"):
            e["GOCOVERDIR"] = os.environ["VERIF_COVERDIR"]
        try:
            p = subprocess.run(cmd, env=e, stdout=subprocess.PIPE, stderr=subprocess.PIPE, text=True, timeout=timeout)
        except subprocess.TimeoutExpired:
            raise CheckError("harness %s timed out" % family)
        self.last_stderr = p.stderr
        if p.returncode not in (0, 3):   # 3 = watchdog fired: the timeout event is in shard 0
            # a crash the harness could not recover from (fatal runtime error, stack exhaustion, OOM kill)
            self.crash = {"family": family, "rc": p.returncode,
                          "stderr": p.stderr if len(p.stderr) < 4500 else p.stderr[:2500] + "\n...\n" + p.stderr[-1500:]}
            raise HarnessDied(family, p.returncode, p.stderr, out)
        # the harness's summary line lists the events it wrote by kind: a generator branch that stopped producing (a
        # generator fault, never a verdict) is noticed by comparing with the committed list spec/expected_kinds.json
        for line in p.stdout.splitlines():
            if line.startswith('{"family"'):
                try:
                    kinds = json.loads(line).get("kinds", {})
                except ValueError:
                    kinds = {}
                have = self.event_kinds.setdefault(name or family, {})
                for k, n in kinds.items():
                    have[k] = have.get(k, 0) + n
                if p.returncode == 0 and not os.environ.get("VERIF_NO_KINDS"):
                    want = EXPECTED_KINDS.get(name or family, {}).get(self.tier, [])
                    missing = [k for k in want if not kinds.get(k)]
                    if missing:
                        # decided at the end of the run: on a tree that breaks the property the missing events may have
                        # turned into panics or time-outs, and those are violations, not a dead generator
                        self.missing_kinds.append("%s: %s" % (family, ", ".join(missing)))
        files = sorted(os.path.join(out, f) for f in os.listdir(out) if f.endswith(".ndjson"))
        return [f for f in files if os.path.getsize(f) > 0]

    # ---- trace validation ------------------------------------------------------------------------
    def validate(self, trace_module, shards, cfg="Trace.cfg", stage=None, timeout=3600, heap="3g", env=None, par=NCPU):
        """TLC judges every event of every shard; rejected events are collected, not fatal."""
        stage = stage or trace_module
        if not shards:
            raise CheckError("stage %s: the harness produced no events" % stage)

        def one(path):
            e = {"TRACE": path}
            if env:
                e.update(env)
            rc, out, st = self.tlc(trace_module, cfg, workers=1, env=e, timeout=timeout, heap=heap,
                                   tag=stage + "." + os.path.basename(path))
            m = None
            for line in out.splitlines():
                line = line.strip()
                if line.startswith('"{') and '\\"done\\"' in line:
                    m = json.loads(json.loads(line))
            n = count_lines(path)
            if m is None or st is None or int(m["done"]) != n:
                raise CheckError("trace validation of %s by %s did not consume the whole trace (%s of %d):\n%s"
                                 % (path, trace_module, m and m.get("done"), n, tail(out)))
            return path, n, [int(x) for x in m["bad"]], st, set(int(x) for x in m.get("alt", m["bad"])), int(m.get("exact", -1))

        t = time.time()
        with ThreadPoolExecutor(max_workers=par) as ex:
            results = list(ex.map(one, shards))
        nev = nbad = 0
        nexact = sum(r[5] for r in results if r[5] >= 0) if any(r[5] >= 0 for r in results) else None
        for path, n, bad, st, altset, _ in results:
            self.states += st[1]
            self.transitions += st[0]
            nev += n
            badset = set(bad)
            with open(path) as f:
                for i, line in enumerate(f, 1):
                    if i in badset:
                        ev = json.loads(line)
                        if i not in altset:
                            # rejected under the property, accepted under the recorded-defect semantics of the spec
                            ev["_alt"] = 1
                        self.rejected.append((stage, os.path.basename(path), i, ev))
                        nbad += 1
                    else:
                        if '"nt":1' in line:
                            self.nontrivial.add(hashlib.sha1(line.encode()).digest()[:10])
                        if len(self.samples) < 3 and len(line) < 3000 and (i % 97 == 1):
                            self.samples.append({"stage": stage, "event": json.loads(line)})
        self.events += nev
        self.accepted += nev - nbad
        info = {"stage": stage, "trace_spec": trace_module, "events": nev, "rejected": nbad,
                "shards": len(shards), "wall_s": round(time.time() - t, 1)}
        if nexact is not None:
            # trace specs that judge only part of the events (the others belong to another plan) report how many
            info["judged_exactly"] = nexact
            if nexact == 0:
                raise CheckError("stage %s: no event was in the class this trace spec judges (vacuous)" % stage)
        self.stage_info.append(info)
        return nbad


class HarnessDied(Exception):
    def __init__(self, family, rc, stderr, outdir):
        super().__init__("harness %s died rc=%s" % (family, rc))
        self.family, self.rc, self.stderr, self.outdir = family, rc, stderr, outdir


def tail(s, n=3000):
    s = "\n".join(l for l in s.splitlines() if not re.match(r"^\d+\. Line ", l))
    i = s.find("Error:")
    if i >= 0:
        j = s.find("Error: The behavior up to this point", i)
        return (s[i:j] if j > i else s[i:i + 1500])[:2500] + "\n...\n" + s[-300:]
    return s[-n:]


def count_lines(path):
    n = 0
    with open(path, "rb") as f:
        for _ in f:
            n += 1
    return n


# ---- findings ---------------------------------------------------------------------------------------

def load_findings():
    p = os.path.join(VERIF, "known_findings.json")
    if not os.path.exists(p):
        return []
    with open(p) as f:
        return json.load(f)["findings"]


def finish(ctx, signature, level_rule, assumptions, trusted_base, extra_cov=None):
    """Classify rejected events, write replay files and evidence, print the verdict lines, return exit code."""
    known = [k for k in load_findings() if k["property"] == ctx.pid and k.get("status") == "known"]
    known_sigs = {k["signature"]: k for k in known}
    by_sig = {}
    for (stage, shard, idx, ev) in ctx.rejected:
        sig = signature(ev) if signature else "rejected"
        by_sig.setdefault(sig, []).append((stage, shard, idx, ev))
    violations = 0
    known_hits = {}
    os.makedirs(os.path.join(VERIF, "replay"), exist_ok=True)
    for sig, items in sorted(by_sig.items()):
        if sig in known_sigs:
            known_hits[sig] = len(items)
            continue
        violations += len(items)
        stage, shard, idx, ev = items[0]
        h = hashlib.sha1(json.dumps(ev, sort_keys=True).encode()).hexdigest()[:12]
        path = os.path.join(VERIF, "replay", "%s-%s.json" % (ctx.pid, h))
        with open(path, "w") as f:
            json.dump({"property": ctx.pid, "signature": sig, "stage": stage, "shard": shard, "index": idx,
                       "tier": ctx.tier, "seed": ctx.seed, "count_with_signature": len(items), "event": ev}, f, indent=1)
        print("VIOLATION property=%s replay=%s signature=%s count=%d" % (ctx.pid, path, sig, len(items)))
    for sig, n in sorted(known_hits.items()):
        print("KNOWN-FINDING: property=%s %s (%d events; %s)" % (ctx.pid, sig, n, known_sigs[sig].get("what", "")))
    cov = {
        "states": ctx.states,
        "transitions": ctx.transitions,
        "traces_validated_against_impl": ctx.accepted,
        "samples": ctx.samples[:3] or [{"note": "no accepted event small enough to print"}],
        "evaluations": ctx.events,
        "distinct_nontrivial": len(ctx.nontrivial),
        "rule": level_rule,
        "exhaustive": ctx.exhaustive,
        "tlc_generated_cases_replayed": ctx.replayed,
        "model_checking_runs": ctx.mc_runs,
        "trace_validation_stages": ctx.stage_info,
        "events_by_kind": ctx.event_kinds,
        "rejected_events": len(ctx.rejected),
        "known_finding_events": sum(known_hits.values()),
        "trusted_base": trusted_base,
        "checker_cmd": "bin/check %s %s" % (ctx.pid, ctx.tier),
    }
    if extra_cov:
        cov.update(extra_cov)
    if ctx.notes:
        cov["notes"] = ctx.notes
    ev = {"property_id": ctx.pid, "tier": ctx.tier, "seed": ctx.seed, "level": "model_checking", "coverage": cov,
          "assumptions": assumptions, "wall_s": round(time.time() - ctx.t0, 1), "violations": violations}
    # experiments against modified trees (bin/seedcheck, bin/fixrevert) write their evidence elsewhere
    evdir = os.environ.get("VERIF_EVIDENCE_DIR") or os.path.join(VERIF, "evidence-extra" if ctx.pid.startswith("X") else "evidence")
    os.makedirs(evdir, exist_ok=True)
    tmp = os.path.join(evdir, ctx.pid + ".json.tmp")
    with open(tmp, "w") as f:
        json.dump(ev, f)
    os.replace(tmp, os.path.join(evdir, ctx.pid + ".json"))
    print("%s %s: %d model states, %d real-code events judged by TLC, %d rejected (%d known), %.0fs"
          % (ctx.pid, ctx.tier, ctx.states, ctx.events, len(ctx.rejected), sum(known_hits.values()), time.time() - ctx.t0))
    if not violations and ctx.missing_kinds:
        print("ERROR %s %s: the harness wrote no event of a kind it is expected to write (spec/expected_kinds.json) - a generator "
              "branch is dead: %s" % (ctx.pid, ctx.tier, "; ".join(ctx.missing_kinds)))
        return 2
    return 1 if violations else 0
